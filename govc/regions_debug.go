package main

import (
	"fmt"
	"os"
)

func init() {
	debugRegions = func(P *Program, key string) {
		if fn, ok := P.Funcs[key]; ok {
			fmt.Fprintln(os.Stderr, "regions written by", key, ":", P.regions().written(fn))
		}
	}
}

var debugRegions func(P *Program, key string)
