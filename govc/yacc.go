package main

import (
	"fmt"
	"os"
	"path/filepath"
	"regexp"
	"strconv"
	"strings"
)

// Mechanical extraction of goyacc semantic actions (DESIGN 2.7).
//
// The generated parser holds every action as one case of "switch yynt" in
// (*yyParserImpl).Parse.  On every run the cases are cut out of the generated
// .go file verbatim and wrapped, one function per production, in a file that
// exists only in the go/packages overlay:
//
//	func yyActionN(yylex yyLexer, yyS []yySymType, yypt int, yyVAL yySymType) yySymType {
//		var yyDollar []yySymType
//		<case body, verbatim, including "yyDollar = yyS[yypt-k : yypt+1]">
//		return yyVAL
//	}
//
// Dropped by the extraction and trusted: the goyacc driver loop and tables,
// i.e. that case N runs with yyS[yypt-k+1..yypt] holding the values of the
// production's right-hand side in order and yyVAL == $1.  Cross-checked: the
// action text of the .y file equals the generated case text modulo $-names
// and white space, and the right-hand-side length equals k and yyR2[N].

type yaccRule struct {
	N      int
	Lhs    string
	Rhs    []string
	Action string // text between the braces in the .y file, "" if none
	Line   int
}

type yaccAction struct {
	Default bool // no action in the grammar: the default $$ = $1
	N       int
	K       int
	Body    string // generated case body
	Rule    *yaccRule
}

type yaccInfo struct {
	Pkg     string
	Dir     string
	GoFile  string
	YFile   string
	Rules   []*yaccRule
	Actions []*yaccAction
	Errors  []string
	Overlay string // generated file content
	Path    string // overlay file path
}

func (y *yaccInfo) production(n int) string {
	for _, r := range y.Rules {
		if r.N == n {
			return r.Lhs + ": " + strings.Join(r.Rhs, " ")
		}
	}
	return fmt.Sprintf("rule %d", n)
}

// parseYaccRules reads the rules section of a .y file.
func parseYaccRules(src string) ([]*yaccRule, error) {
	i := strings.Index(src, "\n%%")
	if i < 0 {
		return nil, fmt.Errorf("no rules section")
	}
	body := src[i+3:]
	startLine := strings.Count(src[:i+3], "\n") + 1
	if j := strings.Index(body, "\n%%"); j >= 0 {
		body = body[:j]
	}
	var rules []*yaccRule
	n := 0
	pos := 0
	line := startLine
	lhs := ""
	var cur *yaccRule
	flush := func() {
		if cur != nil {
			rules = append(rules, cur)
			cur = nil
		}
	}
	newRule := func() {
		n++
		cur = &yaccRule{N: n, Lhs: lhs, Line: line}
	}
	for pos < len(body) {
		c := body[pos]
		switch {
		case c == '\n':
			line++
			pos++
		case c == ' ' || c == '\t' || c == '\r':
			pos++
		case c == '/' && pos+1 < len(body) && body[pos+1] == '*':
			j := strings.Index(body[pos+2:], "*/")
			if j < 0 {
				return nil, fmt.Errorf("unterminated comment")
			}
			line += strings.Count(body[pos:pos+j+4], "\n")
			pos += j + 4
		case c == '/' && pos+1 < len(body) && body[pos+1] == '/':
			j := strings.IndexByte(body[pos:], '\n')
			if j < 0 {
				pos = len(body)
			} else {
				pos += j
			}
		case c == '{':
			// action: balanced braces, respecting strings/runes/comments
			depth := 0
			j := pos
			for j < len(body) {
				switch body[j] {
				case '{':
					depth++
				case '}':
					depth--
				case '"':
					j++
					for j < len(body) && body[j] != '"' {
						if body[j] == '\\' {
							j++
						}
						j++
					}
				case '`':
					j++
					for j < len(body) && body[j] != '`' {
						j++
					}
				case '\'':
					j++
					for j < len(body) && body[j] != '\'' {
						if body[j] == '\\' {
							j++
						}
						j++
					}
				}
				j++
				if depth == 0 {
					break
				}
			}
			if cur == nil {
				return nil, fmt.Errorf("line %d: action outside a rule", line)
			}
			cur.Action = body[pos+1 : j-1]
			line += strings.Count(body[pos:j], "\n")
			pos = j
		case c == '|':
			flush()
			newRule()
			pos++
		case c == ';':
			flush()
			lhs = ""
			pos++
		case c == '\'':
			j := pos + 1
			for j < len(body) && body[j] != '\'' {
				if body[j] == '\\' {
					j++
				}
				j++
			}
			tok := body[pos : j+1]
			pos = j + 1
			if cur != nil {
				cur.Rhs = append(cur.Rhs, tok)
			}
		case c == '%':
			// %prec X
			j := pos
			for j < len(body) && body[j] != ' ' && body[j] != '\n' && body[j] != '\t' {
				j++
			}
			pos = j
			// skip the precedence token
			for pos < len(body) && (body[pos] == ' ' || body[pos] == '\t') {
				pos++
			}
			for pos < len(body) && body[pos] != ' ' && body[pos] != '\n' && body[pos] != '\t' {
				pos++
			}
		default:
			j := pos
			for j < len(body) && (body[j] == '_' || body[j] >= 'a' && body[j] <= 'z' || body[j] >= 'A' && body[j] <= 'Z' || body[j] >= '0' && body[j] <= '9' || body[j] == '.') {
				j++
			}
			if j == pos {
				return nil, fmt.Errorf("line %d: unexpected %q", line, string(c))
			}
			id := body[pos:j]
			pos = j
			// is it a rule head?  look ahead for ':'
			k := pos
			for k < len(body) && (body[k] == ' ' || body[k] == '\t' || body[k] == '\n' || body[k] == '\r') {
				k++
			}
			if k < len(body) && body[k] == ':' {
				flush()
				lhs = id
				line += strings.Count(body[pos:k+1], "\n")
				pos = k + 1
				newRule()
			} else if cur != nil {
				cur.Rhs = append(cur.Rhs, id)
			} else {
				return nil, fmt.Errorf("line %d: symbol %s outside a rule", line, id)
			}
		}
	}
	flush()
	return rules, nil
}

var caseRe = regexp.MustCompile(`(?m)^\tcase (\d+):\n`)
var dollarRe = regexp.MustCompile(`yyS\[yypt-(\d+) : yypt\+1\]`)

// extractYacc builds the overlay for one generated parser.
func extractYacc(dir, pkg, goFile, yFile string) *yaccInfo {
	y := &yaccInfo{Pkg: pkg, Dir: dir, GoFile: goFile, YFile: yFile, Path: filepath.Join(dir, "zz_verif_yyactions.go")}
	gsrc, err := os.ReadFile(filepath.Join(dir, goFile))
	if err != nil {
		y.Errors = append(y.Errors, err.Error())
		return y
	}
	ysrc, err := os.ReadFile(filepath.Join(dir, yFile))
	if err != nil {
		y.Errors = append(y.Errors, err.Error())
		return y
	}
	y.Rules, err = parseYaccRules(string(ysrc))
	if err != nil {
		y.Errors = append(y.Errors, yFile+": "+err.Error())
		return y
	}
	g := string(gsrc)
	sw := strings.Index(g, "\tswitch yynt {\n")
	if sw < 0 {
		y.Errors = append(y.Errors, goFile+": no 'switch yynt'")
		return y
	}
	rest := g[sw:]
	end := strings.Index(rest, "\n\t}\n\tgoto yystack")
	if end < 0 {
		y.Errors = append(y.Errors, goFile+": end of action switch not found")
		return y
	}
	sect := rest[:end+1]
	locs := caseRe.FindAllStringSubmatchIndex(sect, -1)
	for i, loc := range locs {
		n, _ := strconv.Atoi(sect[loc[2]:loc[3]])
		bodyEnd := len(sect)
		if i+1 < len(locs) {
			bodyEnd = locs[i+1][0]
		}
		body := sect[loc[1]:bodyEnd]
		a := &yaccAction{N: n, Body: body, K: -1}
		if m := dollarRe.FindStringSubmatch(body); m != nil {
			k, _ := strconv.Atoi(m[1])
			a.K = k
		}
		for _, r := range y.Rules {
			if r.N == n {
				a.Rule = r
			}
		}
		y.Actions = append(y.Actions, a)
	}
	// yyR2 cross-check
	r2 := parseIntTable(g, "yyR2")
	for _, a := range y.Actions {
		if a.Rule == nil {
			y.Errors = append(y.Errors, fmt.Sprintf("%s: case %d has no rule in %s", goFile, a.N, yFile))
			continue
		}
		if a.K != len(a.Rule.Rhs) {
			y.Errors = append(y.Errors, fmt.Sprintf("case %d (%s): generated code takes %d symbols, the rule has %d", a.N, y.production(a.N), a.K, len(a.Rule.Rhs)))
		}
		if a.N < len(r2) && r2[a.N] != a.K {
			y.Errors = append(y.Errors, fmt.Sprintf("case %d: yyR2 = %d but the action takes %d symbols", a.N, r2[a.N], a.K))
		}
		if normGen(a.Body) != normY(a.Rule.Action) {
			y.Errors = append(y.Errors, fmt.Sprintf("case %d (%s): action text of %s and %s differ", a.N, y.production(a.N), yFile, goFile))
		}
	}
	for _, r := range y.Rules {
		if strings.TrimSpace(r.Action) == "" {
			continue
		}
		found := false
		for _, a := range y.Actions {
			if a.N == r.N {
				found = true
			}
		}
		if !found {
			y.Errors = append(y.Errors, fmt.Sprintf("rule %d (%s) has an action in %s but no case in %s", r.N, y.production(r.N), yFile, goFile))
		}
	}
	// overlay file
	var b strings.Builder
	b.WriteString("//go:build verif\n\n// Code generated by govc from " + goFile + " (in-memory overlay only). DO NOT EDIT.\n\npackage " + pkg + "\n\n")
	b.WriteString(importsUsed(g, sect))
	for _, a := range y.Actions {
		fmt.Fprintf(&b, "\n// %s\nfunc yyAction%d(yylex yyLexer, yyS []yySymType, yypt int, yyVAL yySymType) yySymType {\n\tvar yyDollar []yySymType\n\t_ = yyDollar\n", y.production(a.N), a.N)
		b.WriteString(a.Body)
		b.WriteString("\treturn yyVAL\n}\n")
	}
	// productions without an action: goyacc's default action $$ = $1
	have := map[int]bool{}
	for _, a := range y.Actions {
		have[a.N] = true
	}
	for _, r := range y.Rules {
		if have[r.N] || len(r.Rhs) == 0 {
			continue
		}
		k := len(r.Rhs)
		if r.N < len(r2) && r2[r.N] != k {
			y.Errors = append(y.Errors, fmt.Sprintf("rule %d (%s): yyR2 = %d but the rule has %d symbols", r.N, y.production(r.N), r2[r.N], k))
		}
		body := fmt.Sprintf("\t\tyyDollar = yyS[yypt-%d : yypt+1]\n", k)
		y.Actions = append(y.Actions, &yaccAction{N: r.N, K: k, Body: body, Rule: r, Default: true})
		fmt.Fprintf(&b, "\n// %s   (no action: the driver's default $$ = $1)\nfunc yyAction%d(yylex yyLexer, yyS []yySymType, yypt int, yyVAL yySymType) yySymType {\n\tvar yyDollar []yySymType\n\t_ = yyDollar\n%s\treturn yyVAL\n}\n", y.production(r.N), r.N, body)
	}
	y.Overlay = b.String()
	return y
}

func parseIntTable(src, name string) []int {
	i := strings.Index(src, "var "+name+" = [...]")
	if i < 0 {
		return nil
	}
	j := strings.Index(src[i:], "{")
	k := strings.Index(src[i:], "}")
	if j < 0 || k < 0 {
		return nil
	}
	var out []int
	for _, f := range strings.FieldsFunc(src[i+j+1:i+k], func(r rune) bool { return r == ',' || r == ' ' || r == '\n' || r == '\t' }) {
		n, err := strconv.Atoi(f)
		if err == nil {
			out = append(out, n)
		}
	}
	return out
}

var wsRe = regexp.MustCompile(`\s+`)
var genDollar = regexp.MustCompile(`yyDollar\[(\d+)\](\.[a-z]+)?`)
var genVal = regexp.MustCompile(`yyVAL(\.[a-z]+)?`)

// normGen: generated case body -> canonical text with $n / $$.
func normGen(body string) string {
	// drop the "yyDollar = yyS[...]" line and the outer braces
	lines := strings.Split(body, "\n")
	var keep []string
	for _, l := range lines {
		if dollarRe.MatchString(l) {
			continue
		}
		keep = append(keep, l)
	}
	s := strings.TrimSpace(strings.Join(keep, "\n"))
	s = strings.TrimPrefix(s, "{")
	s = strings.TrimSuffix(s, "}")
	s = genDollar.ReplaceAllString(s, "$$$1")
	s = genVal.ReplaceAllString(s, "$$$$")
	return wsRe.ReplaceAllString(s, "")
}

var yDollarTyped = regexp.MustCompile(`\$<[a-z]+>(\$|\d+)`)

func normY(action string) string {
	s := yDollarTyped.ReplaceAllString(action, "$$$1")
	return wsRe.ReplaceAllString(s, "")
}

var importRe = regexp.MustCompile(`(?s)\nimport \((.*?)\n\)`)

// importsUsed copies from the generated file the imports the action section
// refers to.
func importsUsed(g, sect string) string {
	var lines []string
	for _, m := range importRe.FindAllStringSubmatch(g, -1) {
		for _, l := range strings.Split(m[1], "\n") {
			l = strings.TrimSpace(l)
			if l == "" {
				continue
			}
			path := strings.Trim(l[strings.LastIndex(l, " ")+1:], "\"")
			name := path[strings.LastIndex(path, "/")+1:]
			if f := strings.Fields(l); len(f) == 2 {
				name = f[0]
			}
			if regexp.MustCompile(`\b` + regexp.QuoteMeta(name) + `\.`).MatchString(sect) {
				lines = append(lines, "\t"+l)
			}
		}
	}
	if len(lines) == 0 {
		return ""
	}
	return "import (\n" + strings.Join(lines, "\n") + "\n)\n"
}

// bindActions builds the contracts of the extracted action functions from
// the "action <production>" blocks (and the package's "action *" block,
// which applies to every action).  In their clauses $1..$9 denote the
// values of the right-hand side (yyS[yypt-K+i]), $K its length.
func (P *Program) bindActions() {
	S := P.Specs
	type blk struct {
		key string
		sp  *FuncSpec
	}
	var blocks []blk
	for key, sp := range S.Funcs {
		if strings.Contains(key, ".action ") {
			blocks = append(blocks, blk{key, sp})
		}
	}
	for _, b := range blocks {
		delete(S.Funcs, b.key)
	}
	used := map[string]bool{}
	for _, y := range P.Yacc {
		var wild *FuncSpec
		for _, b := range blocks {
			if b.key == y.Pkg+".action *" {
				wild = b.sp
				used[b.key] = true
			}
		}
		for _, a := range y.Actions {
			var own *FuncSpec
			for _, b := range blocks {
				if b.key == y.Pkg+".action "+y.production(a.N) {
					own = b.sp
					used[b.key] = true
				}
			}
			syms := P.Specs.Symbols[y.Pkg]
			hasSym := false
			if a.Rule != nil {
				if _, ok := syms[a.Rule.Lhs]; ok {
					hasSym = true
				}
				for _, r := range a.Rule.Rhs {
					if _, ok := syms[r]; ok {
						hasSym = true
					}
				}
			}
			if wild == nil && own == nil && !hasSym {
				continue
			}
			if a.Default && own == nil && !hasSym {
				// the default action of a production whose symbols carry no invariant: nothing to check
				S.Funcs[y.Pkg+".action<"+y.production(a.N)+">"] = &FuncSpec{Key: y.Pkg + ".action<" + y.production(a.N) + ">", Skip: "default action ($$ = $1) of a production whose symbols carry no invariant"}
				continue
			}
			nk := y.Pkg + ".action<" + y.production(a.N) + ">"
			sp := &FuncSpec{Key: nk}
			for _, src := range []*FuncSpec{wild, own} {
				if src == nil {
					continue
				}
				sp.File, sp.Line = src.File, src.Line
				if len(src.Props) > 0 {
					sp.Props = src.Props
				}
				for _, rc := range src.Raw {
					if rc.word == "props" {
						sp.Props = strings.Fields(rc.rest)
						continue
					}
					S.parseClause(src.File, rc.line, sp, rc.word, substAction(rc.rest, a.K))
				}
			}
			// symbol invariants: assumed of the right-hand side, established for the left-hand side
			if a.Rule != nil {
				file, line := "", 0
				if wild != nil {
					file, line = wild.File, wild.Line
				}
				for i, r := range a.Rule.Rhs {
					if inv, ok := syms[r]; ok {
						S.parseClause(file, line, sp, "requires", fmt.Sprintf("symbol-%s: %s", symIdent(r), substSym(inv, fmt.Sprintf("yyS[yypt-%d]", a.K-(i+1)))))
					}
				}
				if inv, ok := syms[a.Rule.Lhs]; ok {
					S.parseClause(file, line, sp, "ensures", fmt.Sprintf("symbol-%s: %s", symIdent(a.Rule.Lhs), substSym(inv, "result")))
				}
			}
			if len(sp.Props) == 0 {
				for _, src := range []*FuncSpec{own, wild} {
					if src != nil && len(sp.Props) == 0 {
						sp.Props = src.DefProps
					}
				}
			}
			// clauses parsed before the props were known inherit them
			for _, cs := range [][]*Clause{sp.Requires, sp.Ensures, sp.Assumes} {
				for _, c := range cs {
					if c.Props == nil {
						c.Props = sp.Props
					}
				}
			}
			for _, a2 := range sp.Asserts {
				if a2.Clause != nil && a2.Clause.Props == nil {
					a2.Clause.Props = sp.Props
				}
			}
			S.Funcs[nk] = sp
		}
	}
	for _, b := range blocks {
		if !used[b.key] {
			S.Errors = append(S.Errors, fmt.Sprintf("%s:%d: no grammar action for production %q", filepath.Base(b.sp.File), b.sp.Line, b.key[strings.Index(b.key, ".action ")+8:]))
		}
	}
	for _, y := range P.Yacc {
		for _, e := range y.Errors {
			S.Errors = append(S.Errors, "goyacc extraction ("+y.Pkg+"): "+e)
		}
	}
}

var dollarN = regexp.MustCompile(`\$([1-9K])`)

func substAction(text string, k int) string {
	return dollarN.ReplaceAllStringFunc(text, func(m string) string {
		if m == "$K" {
			return strconv.Itoa(k)
		}
		i := int(m[1] - '0')
		return fmt.Sprintf("yyS[yypt-%d]", k-i)
	})
}

func symIdent(s string) string {
	return strings.Trim(s, "'")
}

var symVar = regexp.MustCompile(`\bv\b`)

// substSym replaces the symbol variable v of an invariant by an expression.
func substSym(inv, by string) string {
	return symVar.ReplaceAllString(inv, by)
}
