package main

import (
	"fmt"
	"go/types"
	"strings"
)

// flagTypes are named unsigned types used as bit sets; they are bit-vectors
// in every mode.
var flagTypes = map[string]bool{
	modPath + "/interp.ExpMode": true,
	modPath + "/interp.Option":  true,
	modPath + "/pattern.Mode":   true,
	modPath + "/printer.Style":  true,
}

func isFlagType(t types.Type) bool {
	if n, ok := t.(*types.Named); ok {
		if n.Obj().Pkg() != nil {
			return flagTypes[n.Obj().Pkg().Path()+"."+n.Obj().Name()]
		}
	}
	return false
}

func typeName(t types.Type) string {
	return types.TypeString(t, func(p *types.Package) string { return p.Name() })
}

func isStructPtr(t types.Type) (*types.Struct, types.Type, bool) {
	if p, ok := t.Underlying().(*types.Pointer); ok {
		if s, ok := p.Elem().Underlying().(*types.Struct); ok {
			return s, p.Elem(), true
		}
	}
	return nil, nil, false
}

func isStruct(t types.Type) (*types.Struct, bool) {
	s, ok := t.Underlying().(*types.Struct)
	return s, ok
}

// opaqueStructs are library struct types modelled as abstract values with
// their own ghost families rather than by their fields.
func opaqueStruct(t types.Type) string {
	switch typeName(t) {
	case "strings.Builder":
		return "Builder"
	case "sync.Mutex", "sync.RWMutex":
		return "Mutex"
	case "atomic.Value":
		return "AtomicValue"
	case "strings.Reader", "bytes.Reader", "bufio.Writer", "bufio.Reader", "os.File", "regexp.Regexp", "user.User":
		return "Opaque"
	}
	return ""
}

// bvFields lists struct fields of Go type int that hold arithmetic values
// and are represented as 64-bit vectors (DESIGN 2.5, mode bv64).
var bvFields = map[string]bool{
	"interp.expr.n":  true,
	"interp.lexer.n": true,
}

// sortOf maps a Go type to the SMT sort of its values.
func (e *Enc) sortOf(t types.Type) Sort {
	return e.U.sortOf(t, e.bv)
}

func (u *Universe) sortOf(t types.Type, bv bool) Sort {
	if isFlagType(t) {
		return SBV
	}
	switch x := t.Underlying().(type) {
	case *types.Basic:
		switch {
		case x.Info()&types.IsBoolean != 0:
			return SBool
		case x.Info()&types.IsInteger != 0:
			if bv {
				return SBV
			}
			return SInt
		case x.Info()&types.IsString != 0:
			return SStr
		case x.Kind() == types.UnsafePointer:
			return SInt
		case x.Kind() == types.UntypedNil:
			return SInt
		case x.Info()&types.IsFloat != 0:
			return SInt // unsupported; never reasoned about
		}
	case *types.Pointer, *types.Map, *types.Chan, *types.Signature:
		return SInt
	case *types.Slice:
		return SSlice
	case *types.Interface:
		return SIface
	case *types.Struct:
		return Sort(u.structDT(t).Name)
	case *types.Array:
		return arraySort(SInt, u.sortOf(x.Elem(), false))
	case *types.Tuple:
		return SInt
	}
	return SInt
}

func (u *Universe) structDT(t types.Type) *StructDT {
	name := "S." + sanitize(typeName(t))
	if _, isNamed := t.(*types.Named); !isNamed {
		name = "S.anon." + sanitize(typeName(t))
		if len(name) > 60 {
			name = fmt.Sprintf("S.anon%d", len(u.structs))
		}
	}
	if d, ok := u.structs[name]; ok {
		return d
	}
	st := t.Underlying().(*types.Struct)
	d := &StructDT{Name: name, Ctor: "mk." + name[2:]}
	u.structs[name] = d // provisional, to stop recursion (recursive struct values cannot occur)
	tn := typeName(t)
	for i := 0; i < st.NumFields(); i++ {
		f := st.Field(i)
		d.Fields = append(d.Fields, name+"."+sanitize(f.Name()))
		var s Sort
		if op := opaqueStruct(f.Type()); op != "" {
			s = SInt
		} else if bvFields[tn+"."+f.Name()] {
			s = SBV
		} else {
			s = u.sortOf(f.Type(), false)
		}
		d.Sorts = append(d.Sorts, s)
	}
	u.structOrd = append(u.structOrd, name)
	return d
}

// fieldSort is the sort of field i of struct type t when stored in the heap.
func (u *Universe) fieldSort(t types.Type, i int) Sort {
	st := t.Underlying().(*types.Struct)
	f := st.Field(i)
	if bvFields[typeName(t)+"."+f.Name()] {
		return SBV
	}
	return u.sortOf(f.Type(), false)
}

func fieldFamily(t types.Type, i int) string {
	st := t.Underlying().(*types.Struct)
	return "F." + sanitize(typeName(t)) + "." + sanitize(st.Field(i).Name())
}

func fieldIndex(t types.Type, name string) int {
	st, ok := t.Underlying().(*types.Struct)
	if !ok {
		return -1
	}
	for i := 0; i < st.NumFields(); i++ {
		if st.Field(i).Name() == name {
			return i
		}
	}
	return -1
}

// zeroValue returns the zero value of a sort/type.
func (e *Enc) zeroValue(t types.Type) Term {
	return e.U.zeroOf(t, e.sortOf(t))
}

func (u *Universe) zeroOf(t types.Type, s Sort) Term {
	switch s {
	case SInt:
		return intLit(0)
	case SBool:
		return tFalse
	case SBV:
		return bvLit(0)
	case SStr:
		return u.strLit("")
	case SSlice:
		return nilSlice
	case SIface:
		return nilIface
	}
	if at, ok := t.Underlying().(*types.Array); ok {
		es := u.sortOf(at.Elem(), false)
		return u.constArray(SInt, es, u.zeroOf(at.Elem(), es))
	}
	if st, ok := t.Underlying().(*types.Struct); ok {
		d := u.structDT(t)
		if st.NumFields() == 0 {
			return Term{"(" + d.Ctor + " 0)", Sort(d.Name)}
		}
		var args []Term
		for i := 0; i < st.NumFields(); i++ {
			args = append(args, u.zeroOf(st.Field(i).Type(), d.Sorts[i]))
		}
		return mk(Sort(d.Name), d.Ctor, args...)
	}
	return intLit(0)
}

// tagOf returns the dynamic type tag for a concrete type.
func (u *Universe) tagOf(t types.Type) int { return u.typeTag(typeName(t)) }

// implements lists the concrete types known to the program whose method set
// satisfies iface.
func (P *Program) implementers(iface *types.Interface) []types.Type {
	var out []types.Type
	for _, t := range P.allConcrete() {
		if !types.Implements(t, iface) {
			continue
		}
		// *T where the non-struct T itself implements the interface is not a
		// representation the code uses (e.g. *ast.List)
		if pt, ok := t.(*types.Pointer); ok {
			if _, isStruct := pt.Elem().Underlying().(*types.Struct); !isStruct && types.Implements(pt.Elem(), iface) {
				continue
			}
		}
		out = append(out, t)
	}
	return out
}

func (P *Program) allConcrete() []types.Type {
	if P.concreteTypes != nil {
		return P.concreteTypes
	}
	seen := map[string]bool{}
	addT := func(t types.Type) {
		k := typeName(t)
		if !seen[k] {
			seen[k] = true
			P.concreteTypes = append(P.concreteTypes, t)
		}
	}
	for _, p := range P.Pkgs {
		sc := p.Types.Scope()
		for _, n := range sc.Names() {
			if tn, ok := sc.Lookup(n).(*types.TypeName); ok {
				if _, isIface := tn.Type().Underlying().(*types.Interface); isIface {
					continue
				}
				addT(tn.Type())
				addT(types.NewPointer(tn.Type()))
			}
		}
	}
	// a few library types that flow through interfaces here
	for _, p := range P.Pkgs {
		for _, imp := range p.Types.Imports() {
			switch imp.Path() {
			case "errors", "io", "strings", "bytes", "bufio", "strconv", "regexp/syntax", "runtime":
				sc := imp.Scope()
				for _, n := range sc.Names() {
					if tn, ok := sc.Lookup(n).(*types.TypeName); ok {
						if _, isIface := tn.Type().Underlying().(*types.Interface); isIface {
							continue
						}
						addT(tn.Type())
						addT(types.NewPointer(tn.Type()))
					}
				}
			}
		}
	}
	return P.concreteTypes
}

func isInterface(t types.Type) bool {
	_, ok := t.Underlying().(*types.Interface)
	return ok
}

func isUnsigned(t types.Type) bool {
	if b, ok := t.Underlying().(*types.Basic); ok {
		return b.Info()&types.IsUnsigned != 0
	}
	return false
}

func intBits(t types.Type) int {
	if b, ok := t.Underlying().(*types.Basic); ok {
		switch b.Kind() {
		case types.Int8, types.Uint8:
			return 8
		case types.Int16, types.Uint16:
			return 16
		case types.Int32, types.Uint32:
			return 32
		}
	}
	return 64
}

func shortType(t types.Type) string {
	s := typeName(t)
	s = strings.ReplaceAll(s, modPath+"/", "")
	return s
}
