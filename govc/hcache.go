package main

import (
	"crypto/sha256"
	"encoding/hex"
	"encoding/json"
	"io/fs"
	"os"
	"path/filepath"
	"sort"
	"strings"
)

// Cache of inferred loop invariants.  Inference (Houdini) only proposes
// invariants; every kept invariant is still emitted and discharged as
// inv-entry / inv-step obligations of the run that uses it, so a stale or
// wrong cache entry can make an obligation fail but can never make one pass.
// The key covers the engine binary and every source and contract file of the
// repository: any change to either recomputes.

type houdiniCache struct {
	path  string
	Funcs map[string]map[string][]string `json:"funcs"` // function key -> loop header index -> kept clause names
}

func (P *Program) inputHash() string {
	h := sha256.New()
	if exe, err := os.Executable(); err == nil {
		if d, err := os.ReadFile(exe); err == nil {
			h.Write(d)
		}
	}
	var files []string
	filepath.WalkDir(P.Repo, func(p string, d fs.DirEntry, err error) error {
		if err != nil {
			return nil
		}
		if d.IsDir() {
			if d.Name() == ".git" {
				return filepath.SkipDir
			}
			return nil
		}
		if strings.HasSuffix(p, ".go") && !strings.HasSuffix(p, "_test.go") || strings.HasSuffix(p, ".y") {
			files = append(files, p)
		}
		return nil
	})
	sort.Strings(files)
	for _, f := range files {
		d, _ := os.ReadFile(f)
		h.Write([]byte(f))
		h.Write([]byte{0})
		h.Write(d)
		h.Write([]byte{0})
	}
	return hex.EncodeToString(h.Sum(nil))[:24]
}

func loadHoudiniCache(P *Program, dir string) *houdiniCache {
	c := &houdiniCache{Funcs: map[string]map[string][]string{}}
	if os.Getenv("GOVC_NOCACHE") != "" || dir == "" {
		return c
	}
	c.path = filepath.Join(dir, "inv-"+P.inputHash()+".json")
	if d, err := os.ReadFile(c.path); err == nil {
		json.Unmarshal(d, c)
		if c.Funcs == nil {
			c.Funcs = map[string]map[string][]string{}
		}
	}
	return c
}

func (c *houdiniCache) save() {
	if c.path == "" {
		return
	}
	// merge with what another process may have written meanwhile
	if d, err := os.ReadFile(c.path); err == nil {
		var o houdiniCache
		if json.Unmarshal(d, &o) == nil {
			for k, v := range o.Funcs {
				if _, ok := c.Funcs[k]; !ok {
					c.Funcs[k] = v
				}
			}
		}
	}
	os.MkdirAll(filepath.Dir(c.path), 0o755)
	// keep the directory small: only the most recent few input states
	if ents, err := os.ReadDir(filepath.Dir(c.path)); err == nil && len(ents) > 6 {
		type ft struct {
			p string
			t int64
		}
		var fs2 []ft
		for _, en := range ents {
			if info, err := en.Info(); err == nil {
				fs2 = append(fs2, ft{filepath.Join(filepath.Dir(c.path), en.Name()), info.ModTime().UnixNano()})
			}
		}
		sort.Slice(fs2, func(i, j int) bool { return fs2[i].t > fs2[j].t })
		for _, f := range fs2[6:] {
			os.Remove(f.p)
		}
	}
	d, _ := json.Marshal(c)
	tmp := c.path + ".tmp" + hex.EncodeToString([]byte{byte(os.Getpid()), byte(os.Getpid() >> 8)})
	if os.WriteFile(tmp, d, 0o644) == nil {
		os.Rename(tmp, c.path)
	}
}
