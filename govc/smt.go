package main

import (
	"fmt"
	"sort"
	"strings"
)

// Sort is an SMT-LIB sort, written out.
type Sort string

const (
	SInt   Sort = "Int"
	SBool  Sort = "Bool"
	SBV    Sort = "(_ BitVec 64)"
	SStr   Sort = "Str"
	SAny   Sort = "Any"
	SSlice Sort = "Slice"
	SIface Sort = "Iface"
)

func arraySort(k, v Sort) Sort { return Sort("(Array " + string(k) + " " + string(v) + ")") }

// Term is an SMT term with its sort.
type Term struct {
	S    string
	Sort Sort
}

func (t Term) String() string { return t.S }

func mk(sort Sort, op string, args ...Term) Term {
	var b strings.Builder
	b.WriteByte('(')
	b.WriteString(op)
	for _, a := range args {
		b.WriteByte(' ')
		b.WriteString(a.S)
	}
	b.WriteByte(')')
	return Term{b.String(), sort}
}

var (
	tTrue  = Term{"true", SBool}
	tFalse = Term{"false", SBool}
)

func intLit(n int64) Term {
	if n < 0 {
		return Term{fmt.Sprintf("(- %d)", -n), SInt}
	}
	return Term{fmt.Sprintf("%d", n), SInt}
}

func bvLit(n uint64) Term { return Term{fmt.Sprintf("#x%016x", n), SBV} }

func boolLit(b bool) Term {
	if b {
		return tTrue
	}
	return tFalse
}

func and(ts ...Term) Term {
	var xs []Term
	for _, t := range ts {
		if t.S == "true" {
			continue
		}
		if t.S == "false" {
			return tFalse
		}
		xs = append(xs, t)
	}
	switch len(xs) {
	case 0:
		return tTrue
	case 1:
		return xs[0]
	}
	return mk(SBool, "and", xs...)
}

func or(ts ...Term) Term {
	var xs []Term
	for _, t := range ts {
		if t.S == "false" {
			continue
		}
		if t.S == "true" {
			return tTrue
		}
		xs = append(xs, t)
	}
	switch len(xs) {
	case 0:
		return tFalse
	case 1:
		return xs[0]
	}
	return mk(SBool, "or", xs...)
}

func not(t Term) Term {
	switch t.S {
	case "true":
		return tFalse
	case "false":
		return tTrue
	}
	if strings.HasPrefix(t.S, "(not ") {
		return Term{t.S[5 : len(t.S)-1], SBool}
	}
	return mk(SBool, "not", t)
}

func implies(a, b Term) Term {
	if a.S == "true" {
		return b
	}
	if a.S == "false" || b.S == "true" {
		return tTrue
	}
	return mk(SBool, "=>", a, b)
}

func eq(a, b Term) Term {
	if a.S == b.S {
		return tTrue
	}
	return mk(SBool, "=", a, b)
}

func ite(c, a, b Term) Term {
	if c.S == "true" {
		return a
	}
	if c.S == "false" {
		return b
	}
	if a.S == b.S {
		return a
	}
	return mk(a.Sort, "ite", c, a, b)
}

func sel(arr, idx Term, elem Sort) Term          { return mk(elem, "select", arr, idx) }
func store(arr, idx, val Term) Term              { return mk(arr.Sort, "store", arr, idx, val) }
func add(a, b Term) Term                         { return mk(SInt, "+", a, b) }
func sub(a, b Term) Term                         { return mk(SInt, "-", a, b) }
func le(a, b Term) Term                          { return mk(SBool, "<=", a, b) }
func lt(a, b Term) Term                          { return mk(SBool, "<", a, b) }
func ge(a, b Term) Term                          { return mk(SBool, ">=", a, b) }
func gt(a, b Term) Term                          { return mk(SBool, ">", a, b) }
func app(sort Sort, f string, args ...Term) Term { return mk(sort, f, args...) }

// slice accessors
func slBase(s Term) Term { return mk(SInt, "sl.base", s) }
func slOff(s Term) Term  { return mk(SInt, "sl.off", s) }
func slLen(s Term) Term  { return mk(SInt, "sl.len", s) }
func slCap(s Term) Term  { return mk(SInt, "sl.cap", s) }
func mkSlice(base, off, ln, cp Term) Term {
	return mk(SSlice, "mkslice", base, off, ln, cp)
}

var nilSlice = Term{"(mkslice 0 0 0 0)", SSlice}

// interface accessors
func ifTag(x Term) Term { return mk(SInt, "if.tag", x) }
func ifVal(x Term) Term { return mk(SAny, "if.val", x) }

var nilIface = Term{"nil.iface", SIface}

// string functions
func sLen(s Term) Term       { return mk(SInt, "slen", s) }
func sByte(s, i Term) Term   { return mk(SInt, "sbyte", s, i) }
func sSub(s, a, b Term) Term { return mk(SStr, "ssub", s, a, b) }
func sConcat(a, b Term) Term { return mk(SStr, "sconcat", a, b) }
func runeAt(s, i Term) Term  { return mk(SInt, "rune_at", s, i) }
func widthAt(s, i Term) Term { return mk(SInt, "width_at", s, i) }
func runeEnc(r Term) Term    { return mk(SStr, "rune_enc", r) }
func byteStr(b Term) Term    { return mk(SStr, "byte_str", b) }

func sanitize(s string) string {
	var b strings.Builder
	for _, r := range s {
		switch {
		case r >= 'a' && r <= 'z', r >= 'A' && r <= 'Z', r >= '0' && r <= '9', r == '_', r == '.':
			b.WriteRune(r)
		case r == '*':
			b.WriteString("P.")
		case r == '/':
			b.WriteByte('.')
		case r == '[' || r == ']':
			b.WriteString("S.")
		case r == '$':
			b.WriteString(".C")
		default:
			b.WriteByte('_')
		}
	}
	return b.String()
}

func sortTag(s Sort) string {
	switch s {
	case SInt:
		return "Int"
	case SBool:
		return "Bool"
	case SBV:
		return "BV"
	case SStr:
		return "Str"
	case SAny:
		return "Any"
	case SSlice:
		return "Slice"
	case SIface:
		return "Iface"
	}
	return sanitize(string(s))
}

// StructDT describes a datatype for a Go struct type.
type StructDT struct {
	Name   string // SMT datatype name
	Ctor   string
	Fields []string // selector names
	Sorts  []Sort
}

// Universe collects the global declarations (datatypes, uninterpreted
// functions, literal constants, axioms) shared by all queries of a run.
type Universe struct {
	structs    map[string]*StructDT
	structOrd  []string
	boxSorts   map[Sort]bool
	strLits    map[string]string // go string -> const name
	strLitOrd  []string
	funs       map[string]string // name -> declare-fun line
	funOrd     []string
	axioms     []UAxiom
	typeTags   map[string]int // type string -> tag
	typeTagOrd []string
	consts     map[string]Sort // global constants
	constOrd   []string
	axiomSeen  map[string]bool
}

// UAxiom is a global axiom included when any of its trigger symbols occurs.
type UAxiom struct {
	Syms []string
	Text string
}

func newUniverse() *Universe {
	u := &Universe{
		structs:  map[string]*StructDT{},
		boxSorts: map[Sort]bool{},
		strLits:  map[string]string{},
		funs:     map[string]string{},
		typeTags: map[string]int{},
		consts:   map[string]Sort{},
	}
	return u
}

func (u *Universe) declareFun(name string, args []Sort, res Sort) {
	if _, ok := u.funs[name]; ok {
		return
	}
	var as []string
	for _, a := range args {
		as = append(as, string(a))
	}
	u.funs[name] = fmt.Sprintf("(declare-fun %s (%s) %s)", name, strings.Join(as, " "), res)
	u.funOrd = append(u.funOrd, name)
}

func (u *Universe) declareConst(name string, s Sort) {
	if _, ok := u.consts[name]; ok {
		return
	}
	u.consts[name] = s
	u.constOrd = append(u.constOrd, name)
}

func (u *Universe) axiom(text string, syms ...string) {
	if u.axiomSeen == nil {
		u.axiomSeen = map[string]bool{}
	}
	if u.axiomSeen[text] {
		return
	}
	u.axiomSeen[text] = true
	u.axioms = append(u.axioms, UAxiom{syms, text})
}

func (u *Universe) typeTag(name string) int {
	if t, ok := u.typeTags[name]; ok {
		return t
	}
	t := len(u.typeTags) + 1
	u.typeTags[name] = t
	u.typeTagOrd = append(u.typeTagOrd, name)
	return t
}

func (u *Universe) box(s Sort) (string, string) {
	u.boxSorts[s] = true
	return "box." + sortTag(s), "unbox." + sortTag(s)
}

func (u *Universe) strLit(s string) Term {
	if n, ok := u.strLits[s]; ok {
		return Term{n, SStr}
	}
	n := fmt.Sprintf("lit.%d", len(u.strLits))
	if s == "" {
		n = "lit.empty"
	}
	u.strLits[s] = n
	u.strLitOrd = append(u.strLitOrd, s)
	return Term{n, SStr}
}

// prelude renders the fixed part of every query.  used: text of the rest of
// the query, to include only relevant literal and axiom definitions.
func (u *Universe) prelude(used func(sym string) bool) string {
	var b strings.Builder
	b.WriteString("(declare-sort Str 0)\n(declare-sort Any 0)\n")
	b.WriteString("(declare-datatypes ((Slice 0)) (((mkslice (sl.base Int) (sl.off Int) (sl.len Int) (sl.cap Int)))))\n")
	b.WriteString("(declare-datatypes ((Iface 0)) (((mkiface (if.tag Int) (if.val Any)))))\n")
	b.WriteString("(declare-const any.nil Any)\n(define-fun nil.iface () Iface (mkiface 0 any.nil))\n")
	// struct datatypes, in registration order (dependencies are registered first)
	for _, n := range u.structOrd {
		d := u.structs[n]
		fmt.Fprintf(&b, "(declare-datatypes ((%s 0)) (((%s", d.Name, d.Ctor)
		if len(d.Fields) == 0 {
			b.WriteString(" (" + d.Name + ".dummy Int)")
		}
		for i, f := range d.Fields {
			fmt.Fprintf(&b, " (%s %s)", f, d.Sorts[i])
		}
		b.WriteString("))))\n")
	}
	// string theory
	b.WriteString(`(declare-fun slen (Str) Int)
(declare-fun sbyte (Str Int) Int)
(declare-fun ssub (Str Int Int) Str)
(declare-fun sconcat (Str Str) Str)
(declare-fun rune_at (Str Int) Int)
(declare-fun width_at (Str Int) Int)
(declare-fun rune_enc (Int) Str)
(declare-fun byte_str (Int) Str)
(declare-fun rune_count (Str) Int)
(assert (forall ((s Str)) (! (>= (slen s) 0) :pattern ((slen s)))))
(assert (forall ((s Str) (a Int) (b Int) (i Int)) (! (=> (and (<= 0 a) (<= a b) (<= b (slen s)) (<= 0 i) (< i (- b a))) (= (sbyte (ssub s a b) i) (sbyte s (+ a i)))) :pattern ((sbyte (ssub s a b) i)))))
(assert (forall ((s Str)) (! (= (ssub s 0 (slen s)) s) :pattern ((ssub s 0 (slen s))))))
(assert (forall ((s Str) (a Int) (b Int) (c Int) (d Int)) (! (=> (and (<= 0 a) (<= a b) (<= b (slen s)) (<= 0 c) (<= c d) (<= d (- b a))) (= (ssub (ssub s a b) c d) (ssub s (+ a c) (+ a d)))) :pattern ((ssub (ssub s a b) c d)))))
(assert (forall ((s Str) (a Int) (b Int)) (! (=> (and (<= 0 a) (<= a b) (<= b (slen s))) (= (slen (ssub s a b)) (- b a))) :pattern ((slen (ssub s a b))))))
(define-fun go.div ((a Int) (b Int)) Int (ite (>= a 0) (ite (> b 0) (div a b) (- (div a (- b)))) (ite (> b 0) (- (div (- a) b)) (div (- a) (- b)))))
(define-fun go.rem ((a Int) (b Int)) Int (- a (* b (go.div a b))))
`)
	var boxes []string
	for s := range u.boxSorts {
		boxes = append(boxes, string(s))
	}
	sort.Strings(boxes)
	for _, s := range boxes {
		t := sortTag(Sort(s))
		fmt.Fprintf(&b, "(declare-fun box.%s (%s) Any)\n(declare-fun unbox.%s (Any) %s)\n", t, s, t, s)
		fmt.Fprintf(&b, "(assert (forall ((x %s)) (! (= (unbox.%s (box.%s x)) x) :pattern ((box.%s x)))))\n", s, t, t, t)
	}
	for _, n := range u.funOrd {
		b.WriteString(u.funs[n])
		b.WriteByte('\n')
	}
	for _, n := range u.constOrd {
		fmt.Fprintf(&b, "(declare-const %s %s)\n", n, u.consts[n])
	}
	// axioms first: they may mention literals
	var ax strings.Builder
	for _, a := range u.axioms {
		inc := len(a.Syms) == 0
		for _, s := range a.Syms {
			if used == nil || used(s) {
				inc = true
			}
		}
		if inc {
			ax.WriteString(a.Text)
			ax.WriteByte('\n')
		}
	}
	axSyms := map[string]bool{}
	symbols(ax.String(), func(s string) { axSyms[s] = true })
	for _, s := range u.strLitOrd {
		n := u.strLits[s]
		if used != nil && !used(n) && !axSyms[n] {
			continue
		}
		fmt.Fprintf(&b, "(declare-const %s Str)\n(assert (= (slen %s) %d))\n", n, n, len(s))
		for i := 0; i < len(s); i++ {
			fmt.Fprintf(&b, "(assert (= (sbyte %s %d) %d))\n", n, i, s[i])
		}
	}
	b.WriteString(ax.String())
	return b.String()
}

// symbols returns the identifiers occurring in an s-expression text.
func symbols(s string, f func(string)) {
	i := 0
	for i < len(s) {
		c := s[i]
		if c == '(' || c == ')' || c == ' ' || c == '\n' || c == '\t' {
			i++
			continue
		}
		if c == '|' {
			j := strings.IndexByte(s[i+1:], '|')
			if j < 0 {
				return
			}
			f(s[i : i+j+2])
			i += j + 2
			continue
		}
		j := i
		for j < len(s) && s[j] != '(' && s[j] != ')' && s[j] != ' ' && s[j] != '\n' && s[j] != '\t' {
			j++
		}
		f(s[i:j])
		i = j
	}
}

// constArray: an array holding z everywhere.  cvc5 accepts (as const ...)
// only for value literals; otherwise a global array constant with a
// quantified definition is used.
func (u *Universe) constArray(idx, elem Sort, z Term) Term {
	srt := arraySort(idx, elem)
	if isValueLiteral(z.S) {
		return Term{fmt.Sprintf("((as const %s) %s)", srt, z.S), srt}
	}
	name := "zarr." + sortTag(idx) + "." + sortTag(elem)
	if _, ok := u.consts[name]; !ok {
		u.declareConst(name, srt)
		u.axiom(fmt.Sprintf("(assert (forall ((i %s)) (! (= (select %s i) %s) :pattern ((select %s i)))))", idx, name, z.S, name), name)
	}
	return Term{name, srt}
}

func isValueLiteral(s string) bool {
	if s == "true" || s == "false" || s == "(mkslice 0 0 0 0)" {
		return true
	}
	if strings.HasPrefix(s, "#x") {
		return true
	}
	for _, c := range s {
		if c < '0' || c > '9' {
			return false
		}
	}
	return s != ""
}
