package main

import (
	"go/types"
	"strings"

	"golang.org/x/tools/go/ssa"
)

// Effects is the syntactic over-approximation of what a function may write.
type Effects struct {
	Fams map[string]Sort
	All  bool // calls something unknown: may write anything
	Why  string
	// Calls lists static repo callees (for reports)
	Calls map[string]bool
}

func (P *Program) effectsOf(fn *ssa.Function, U *Universe) *Effects {
	if P.effects == nil {
		P.effects = map[*ssa.Function]*Effects{}
		P.computeEffects(U)
	}
	if ef, ok := P.effects[fn]; ok {
		return ef
	}
	return &Effects{All: true, Fams: map[string]Sort{}}
}

func (P *Program) computeEffects(U *Universe) {
	direct := map[*ssa.Function]*Effects{}
	callees := map[*ssa.Function][]*ssa.Function{}
	for _, fn := range P.Funcs {
		ef := &Effects{Fams: map[string]Sort{}, Calls: map[string]bool{}}
		direct[fn] = ef
		for _, b := range fn.Blocks {
			for _, in := range b.Instrs {
				switch x := in.(type) {
				case *ssa.Store:
					if rootIsFresh(x.Addr, 0) {
						continue // initialising an object this function allocated: not an effect on the caller's state
					}
					P.storeEffect(U, ef, x.Addr, x.Val.Type())
				case *ssa.MapUpdate:
					if rootIsFresh(x.Map, 0) {
						continue
					}
					mt := x.Map.Type().Underlying().(*types.Map)
					k, v := U.sortOf(mt.Key(), false), U.sortOf(mt.Elem(), false)
					ef.Fams[mapHasFam(k, v)] = arraySort(SInt, arraySort(k, SBool))
					ef.Fams[mapValFam(k, v)] = arraySort(SInt, arraySort(k, v))
				case *ssa.Send:
				case ssa.CallInstruction:
					P.callEffect(U, ef, x, fn, callees)
				}
			}
		}
	}
	// transitive closure
	changed := true
	for changed {
		changed = false
		for fn, ef := range direct {
			for _, c := range callees[fn] {
				ce := direct[c]
				if ce == nil {
					continue
				}
				if ce.All && !ef.All {
					ef.All = true
					ef.Why = ce.Why
					changed = true
				}
				for k, s := range ce.Fams {
					if _, ok := ef.Fams[k]; !ok {
						ef.Fams[k] = s
						changed = true
					}
				}
			}
		}
	}
	P.effects = direct
}

func mapHasFam(k, v Sort) string { return "MapHas." + sortTag(k) + "." + sortTag(v) }
func mapValFam(k, v Sort) string { return "MapVal." + sortTag(k) + "." + sortTag(v) }
func memFam(s Sort) string       { return "Mem." + sortTag(s) }
func cellFam(s Sort) string      { return "Cell." + sortTag(s) }
func memSort(s Sort) Sort        { return arraySort(SInt, arraySort(SInt, s)) }

func (P *Program) storeEffect(U *Universe, ef *Effects, addr ssa.Value, vt types.Type) {
	switch a := addr.(type) {
	case *ssa.FieldAddr:
		st := a.X.Type().Underlying().(*types.Pointer).Elem()
		// whole-struct stores into an embedded struct write each field
		if s, ok := vt.Underlying().(*types.Struct); ok && opaqueStruct(vt) == "" {
			ft := st.Underlying().(*types.Struct).Field(a.Field).Type()
			for i := 0; i < s.NumFields(); i++ {
				ef.Fams[fieldFamily(ft, i)] = arraySort(SInt, U.fieldSort(ft, i))
			}
			return
		}
		// the base may itself be an element of a slice (struct stored by value)
		if _, isIdx := a.X.(*ssa.IndexAddr); isIdx {
			P.storeEffect(U, ef, a.X, st)
			return
		}
		ef.Fams[fieldFamily(st, a.Field)] = arraySort(SInt, U.fieldSort(st, a.Field))
	case *ssa.IndexAddr:
		var et types.Type
		switch t := a.X.Type().Underlying().(type) {
		case *types.Slice:
			et = t.Elem()
		case *types.Pointer:
			et = t.Elem().Underlying().(*types.Array).Elem()
		}
		if et != nil {
			s := U.sortOf(et, false)
			ef.Fams[memFam(s)] = memSort(s)
		}
	case *ssa.Global:
		s := U.sortOf(vt, false)
		ef.Fams["G."+sanitize(a.Pkg.Pkg.Name()+"."+a.Name())] = s
	case *ssa.Alloc:
		if st, ok := vt.Underlying().(*types.Struct); ok && opaqueStruct(vt) == "" {
			for i := 0; i < st.NumFields(); i++ {
				ef.Fams[fieldFamily(vt, i)] = arraySort(SInt, U.fieldSort(vt, i))
			}
			return
		}
		s := U.sortOf(vt, false)
		ef.Fams[cellFam(s)] = arraySort(SInt, s)
	default:
		// store through a pointer value
		if st, ok := vt.Underlying().(*types.Struct); ok && opaqueStruct(vt) == "" {
			for i := 0; i < st.NumFields(); i++ {
				ef.Fams[fieldFamily(vt, i)] = arraySort(SInt, U.fieldSort(vt, i))
			}
			return
		}
		s := U.sortOf(vt, false)
		ef.Fams[cellFam(s)] = arraySort(SInt, s)
	}
}

func (P *Program) callEffect(U *Universe, ef *Effects, call ssa.CallInstruction, fn *ssa.Function, callees map[*ssa.Function][]*ssa.Function) {
	c := call.Common()
	if _, isGo := call.(*ssa.Go); isGo {
		return // the goroutine is verified as its own entry point; its writes are concurrency (not modelled)
	}
	if c.IsInvoke() {
		// interface method: all repo implementations, or an external model
		name := c.Method.Name()
		recv := c.Value.Type()
		if iface, ok := recv.Underlying().(*types.Interface); ok {
			found := false
			for _, t := range P.implementers(iface) {
				ms := P.SSA.MethodSets.MethodSet(t)
				sel := ms.Lookup(c.Method.Pkg(), name)
				if sel == nil {
					continue
				}
				m := P.SSA.MethodValue(sel)
				if m != nil && m.Pkg != nil && P.Funcs[funcKey(m)] == m {
					callees[fn] = append(callees[fn], m)
					found = true
				}
			}
			if ex := externEffects(typeName(recv) + "." + name); ex != nil {
				for k, s := range ex {
					ef.Fams[k] = s
				}
				found = true
			}
			if !found {
				ef.All = true
				ef.Why = fn.Name() + ": interface call " + typeName(recv) + "." + name
			}
		}
		return
	}
	switch v := c.Value.(type) {
	case *ssa.Function:
		if P.Funcs[funcKey(v)] == v {
			callees[fn] = append(callees[fn], v)
			ef.Calls[funcKey(v)] = true
			return
		}
		if ex := externEffects(externName(v)); ex != nil {
			if strings.HasPrefix(externName(v), "strings.(*Builder).") && len(c.Args) > 0 && rootIsFresh(c.Args[0], 0) {
				return // a builder local to this activation
			}
			for k, s := range ex {
				ef.Fams[k] = s
			}
			return
		}
		if externPure(externName(v)) {
			return
		}
		// a library function without a model can only reach the program's memory
		// through its arguments
		fams, all := P.unknownExternEffects(U, c)
		for k, s := range fams {
			ef.Fams[k] = s
		}
		if all {
			ef.All = true
			ef.Why = fn.Name() + ": call of " + externName(v) + " with a pointer into program state"
		}
	case *ssa.Builtin:
		switch v.Name() {
		case "append", "copy":
			if len(c.Args) > 0 {
				if sl, ok := c.Args[0].Type().Underlying().(*types.Slice); ok {
					s := U.sortOf(sl.Elem(), false)
					ef.Fams[memFam(s)] = memSort(s)
				}
			}
		case "close":
			ef.Fams["Chan.closed"] = arraySort(SInt, SBool)
		case "delete":
			mt := c.Args[0].Type().Underlying().(*types.Map)
			k, vv := U.sortOf(mt.Key(), false), U.sortOf(mt.Elem(), false)
			ef.Fams[mapHasFam(k, vv)] = arraySort(SInt, arraySort(k, SBool))
			ef.Fams[mapValFam(k, vv)] = arraySort(SInt, arraySort(k, vv))
		}
	case *ssa.MakeClosure:
		if f, ok := v.Fn.(*ssa.Function); ok {
			callees[fn] = append(callees[fn], f)
		}
	default:
		// closure value / func-typed variable: if it is a local closure of
		// this function (or sibling) we cannot tell statically
		if mc := localClosure(c.Value); mc != nil {
			callees[fn] = append(callees[fn], mc)
			return
		}
		// a func value: when no func of this signature can come from outside
		// the package, the callee is one of the package's own closures
		pkg := fn.Pkg
		for par := fn.Parent(); pkg == nil && par != nil; par = par.Parent() {
			pkg = par.Pkg
		}
		if pkg != nil {
			if cs, closed := P.closuresOfSig(pkg, c.Signature()); closed {
				callees[fn] = append(callees[fn], cs...)
				return
			}
		}
		ef.All = true
		ef.Why = fn.Name() + ": call of a func value " + c.Value.Name()
	}
}

// localClosure resolves a called value to a closure made in the same function.
func localClosure(v ssa.Value) *ssa.Function {
	switch x := v.(type) {
	case *ssa.MakeClosure:
		if f, ok := x.Fn.(*ssa.Function); ok {
			return f
		}
	case *ssa.Function:
		return x
	}
	return nil
}

func externName(fn *ssa.Function) string {
	if fn.Pkg != nil {
		return fn.Pkg.Pkg.Path() + "." + fn.RelString(fn.Pkg.Pkg)
	}
	if fn.Signature.Recv() != nil {
		return typeName(fn.Signature.Recv().Type()) + "." + fn.Name()
	}
	return fn.String()
}

// closuresOfSig returns the functions of pkg whose value may flow into a
// func-typed variable of the given signature, and whether that set is closed
// (no exported entry point accepts or stores such a func value).
func (P *Program) closuresOfSig(pkg *ssa.Package, sig *types.Signature) ([]*ssa.Function, bool) {
	// exported API that takes funcs of this signature opens the set
	open := false
	check := func(t types.Type) {
		if s, ok := t.Underlying().(*types.Signature); ok && types.Identical(s, sig) {
			open = true
		}
	}
	for _, fn := range P.Funcs {
		if fn.Pkg != pkg || fn.Object() == nil || !fn.Object().Exported() {
			continue
		}
		ps := fn.Signature.Params()
		for i := 0; i < ps.Len(); i++ {
			check(ps.At(i).Type())
		}
	}
	sc := pkg.Pkg.Scope()
	for _, n := range sc.Names() {
		if tn, ok := sc.Lookup(n).(*types.TypeName); ok && tn.Exported() {
			if st, ok := tn.Type().Underlying().(*types.Struct); ok {
				for i := 0; i < st.NumFields(); i++ {
					if st.Field(i).Exported() {
						check(st.Field(i).Type())
					}
				}
			}
		}
	}
	if open {
		return nil, false
	}
	var out []*ssa.Function
	for _, fn := range P.Funcs {
		if fn.Pkg != pkg && (fn.Parent() == nil || fn.Parent().Pkg != pkg) {
			continue
		}
		if !types.Identical(fn.Signature, sig) {
			// closures: signature without receiver
			continue
		}
		// only functions whose value is taken somewhere: closures and referenced funcs
		if fn.Parent() != nil {
			out = append(out, fn)
			continue
		}
		if fn.Referrers() != nil {
			// package-level function used as a value
		}
	}
	// package-level functions used as values (method values / func refs)
	for _, fn := range P.Funcs {
		if fn.Pkg != pkg || fn.Parent() != nil || fn.Signature.Recv() != nil {
			continue
		}
		if types.Identical(fn.Signature, sig) {
			out = append(out, fn)
		}
	}
	return out, true
}

// rootIsFresh: the address (or container) is rooted in an object allocated
// by the same function activation.
func rootIsFresh(v ssa.Value, depth int) bool {
	if depth > 6 {
		return false
	}
	switch x := v.(type) {
	case *ssa.Alloc, *ssa.MakeMap, *ssa.MakeSlice:
		return true
	case *ssa.FieldAddr:
		// a field of a fresh struct; but a pointer loaded from it is not fresh
		return rootIsFresh(x.X, depth+1)
	case *ssa.IndexAddr:
		return rootIsFresh(x.X, depth+1)
	case *ssa.Slice:
		return rootIsFresh(x.X, depth+1)
	}
	return false
}

// unknownExternEffects: what an unmodelled library function may write - the
// backing arrays of slice arguments; "anything" if it receives a pointer to
// a struct or an interface/func value of the program (it could call back).
func (P *Program) unknownExternEffects(U *Universe, c *ssa.CallCommon) (map[string]Sort, bool) {
	fams := map[string]Sort{}
	all := false
	for _, a := range c.Args {
		switch t := a.Type().Underlying().(type) {
		case *types.Slice:
			s := U.sortOf(t.Elem(), false)
			fams[memFam(s)] = memSort(s)
		case *types.Pointer:
			if n, ok := t.Elem().(*types.Named); ok && n.Obj().Pkg() != nil && strings.HasPrefix(n.Obj().Pkg().Path(), modPath) {
				all = true
			}
		case *types.Signature:
			all = true
		case *types.Interface:
			// an interface holding a program object could be called back; library
			// interfaces (io.Writer, error, ...) holding library objects cannot
			if mi, ok := a.(*ssa.MakeInterface); ok {
				if n, ok := derefNamed(mi.X.Type()); ok && n.Obj().Pkg() != nil && strings.HasPrefix(n.Obj().Pkg().Path(), modPath) {
					if !pureMethodSet(n) {
						all = true
					}
				}
			}
		}
	}
	return fams, all
}

func derefNamed(t types.Type) (*types.Named, bool) {
	if p, ok := t.(*types.Pointer); ok {
		t = p.Elem()
	}
	n, ok := t.(*types.Named)
	return n, ok
}

// pureMethodSet: program types whose methods (String, Error, Pos, End, ...) do
// not write program state; conservative list by package.
func pureMethodSet(n *types.Named) bool {
	switch n.Obj().Pkg().Name() {
	case "ast":
		return true
	}
	switch n.Obj().Name() {
	case "Error", "ArithExprError", "ParamExpError", "Option":
		return true
	}
	return false
}
