package main

import (
	"encoding/json"
	"flag"
	"fmt"
	"os"
	"path/filepath"
	"regexp"
	"sort"
	"strconv"
	"strings"
	"time"

	"golang.org/x/tools/go/ssa"
)

// Ledger: obligations discharged on the unchanged tree, per property.
type Ledger struct {
	Props map[string]*LedgerProp `json:"props"`
}

type LedgerProp struct {
	Obligations map[string]*LedgerEntry `json:"obligations"`
	// Functions whose every no-panic (K1) obligation was discharged: a failing
	// K1 obligation of such a function is a violation even under a new name.
	NoPanicFuncs map[string]int `json:"nopanic_functions"`
}

type LedgerEntry struct {
	Kind    string `json:"kind"`
	Backend string `json:"backend"`
	Ms      int64  `json:"ms"`
}

var k1Kinds = map[string]bool{"bounds": true, "slice": true, "nil": true, "assert": true, "div": true, "shift": true, "nilmap": true, "make": true, "repeat": true, "panic": true, "lock": true}

func loadLedger(path string) *Ledger {
	l := &Ledger{Props: map[string]*LedgerProp{}}
	data, err := os.ReadFile(path)
	if err == nil {
		json.Unmarshal(data, l)
	}
	if l.Props == nil {
		l.Props = map[string]*LedgerProp{}
	}
	return l
}

type knownFinding struct {
	prop, oblig, text string
}

func loadKnown(path string) (known []knownFinding, fixed []string) {
	data, err := os.ReadFile(path)
	if err != nil {
		return
	}
	for _, ln := range strings.Split(string(data), "\n") {
		ln = strings.TrimSpace(ln)
		switch {
		case strings.HasPrefix(ln, "known:"):
			kf := knownFinding{text: strings.TrimSpace(ln[6:])}
			for _, f := range strings.Fields(ln) {
				if strings.HasPrefix(f, "property=") {
					kf.prop = f[9:]
				}
			}
			if m := regexp.MustCompile(`obligation=(\S.*?)\s+witness=`).FindStringSubmatch(ln); m != nil {
				kf.oblig = m[1]
			} else if m := regexp.MustCompile(`obligation=(\S+)`).FindStringSubmatch(ln); m != nil {
				kf.oblig = m[1]
			}
			known = append(known, kf)
		case strings.HasPrefix(ln, "fixed:"):
			fixed = append(fixed, strings.TrimSpace(ln[6:]))
		}
	}
	return
}

func hasProp(ps []string, p string) bool {
	for _, x := range ps {
		if x == p {
			return true
		}
	}
	return false
}

// funcProps: the properties a function's no-panic obligations count for.
func (P *Program) funcProps(fn *ssa.Function) []string {
	if sp := P.specFor(fn); sp != nil {
		return sp.Props
	}
	if fn.Pkg != nil && fn.Parent() == nil {
		if ps, ok := P.Specs.DefaultOpaque[fn.Pkg.Pkg.Name()]; ok {
			return ps
		}
	}
	if par := fn.Parent(); par != nil {
		return P.funcProps(par)
	}
	return nil
}

func (P *Program) skipped(fn *ssa.Function) string {
	if sp := P.specFor(fn); sp != nil && sp.Skip != "" {
		return sp.Skip
	}
	return ""
}

func cmdCheck(args []string) {
	fs := flag.NewFlagSet("check", flag.ExitOnError)
	repo := fs.String("repo", "/repo", "repository")
	verif := fs.String("verif", "/verif", "verif dir")
	prop := fs.String("prop", "", "property id")
	tier := fs.String("tier", "quick", "quick|thorough")
	update := fs.Bool("update-ledger", false, "record discharged obligations in the ledger")
	force := fs.Bool("force-ledger", false, "rewrite the ledger even if obligations of the old ledger are missing (after renaming)")
	jobs := fs.Int("jobs", 16, "parallel queries")
	boundedFile := fs.String("bounded", "", "report of the bounded stand-in (JSON) to merge")
	fs.Parse(args)
	if *prop == "" {
		fmt.Fprintln(os.Stderr, "check: -prop required")
		os.Exit(2)
	}
	seed := 0
	if s := os.Getenv("VERIF_SEED"); s != "" {
		seed, _ = strconv.Atoi(s)
	}
	t0 := time.Now()
	outDir := filepath.Join(*verif, "out", *prop+"-"+*tier)
	os.RemoveAll(outDir)
	os.MkdirAll(outDir, 0o755)
	replayDir := filepath.Join(*verif, "out", "replay", *prop)
	os.RemoveAll(replayDir)
	os.MkdirAll(replayDir, 0o755)

	P, err := loadProgram(*repo)
	if err != nil {
		fmt.Println("ERROR loading repository:", err)
		// code that does not compile cannot be checked; not a property violation
		writeEvidence(*verif, *prop, *tier, seed, nil, nil, time.Since(t0), []string{"repository does not load: " + err.Error()}, 0, nil)
		os.Exit(2)
	}
	P.OutDir = outDir
	P.Specs = loadSpecs(findSpecFiles(*repo, *verif))
	P.bindActions()
	U := newUniverse()

	var fns []*ssa.Function
	var skippedFns []string
	for _, k := range P.sortedFuncKeys() {
		fn := P.Funcs[k]
		if len(fn.Blocks) == 0 || (inPlaceClosure(fn) && !P.specFor(fn).hasContract()) {
			continue
		}
		ps := P.funcProps(fn)
		if !hasProp(ps, *prop) && !specMentionsProp(P.specFor(fn), *prop) {
			continue
		}
		if why := P.skipped(fn); why != "" {
			skippedFns = append(skippedFns, k+": "+why)
			continue
		}
		fns = append(fns, fn)
	}
	timeout := 20
	which := []int{0, 1, 2}
	if *tier == "thorough" {
		timeout = 60
	}
	inv := inferAll(P, U, fns, outDir+"/houdini", seed)
	var obs []*Oblig
	var encs []*Enc
	var unsupported []string
	var specErrs []string
	specErrs = append(specErrs, P.Specs.Errors...)
	for _, fn := range fns {
		e := verifyWith(P, U, fn, nil, inv[fn])
		encs = append(encs, e)
		if e.unsupported != "" {
			unsupported = append(unsupported, e.Key+": "+e.unsupported)
			continue
		}
		specErrs = append(specErrs, e.specErrs...)
		for _, o := range e.obligs {
			if hasProp(o.Props, *prop) {
				obs = append(obs, o)
			}
		}
	}
	solveAll(obs, outDir, timeout, *jobs, seed, which, true)
	// Second attempt for what the first left open: an obligation that no solver
	// decided within the budget is tried once more with three times the budget
	// and another random seed (a few quantified obligations sit close to the
	// budget; a change that really breaks a clause still ends undecided or
	// refuted, only later).
	{
		var retry []*Oblig
		first := map[*Oblig]*SolveResult{}
		listed, _ := loadKnown(filepath.Join(*verif, "known-findings.txt"))
		isListed := func(name string) bool {
			for i := range listed {
				if listed[i].prop == *prop && (listed[i].oblig == name || listed[i].oblig == stripReturnSuffix(name)) {
					return true
				}
			}
			return false
		}
		for _, o := range obs {
			if o.Result != nil && !o.Cover && (o.Result.Status == "timeout" || o.Result.Status == "unknown") && !isListed(o.Name) {
				retry = append(retry, o)
			}
		}
		if len(retry) > 0 && len(retry) <= 24 {
			for _, o := range retry {
				first[o] = o.Result
				o.Result = nil
			}
			solveAll(retry, outDir+"/retry", timeout*3, *jobs, seed+7, which, true)
			for _, o := range retry {
				if o.Result == nil || (o.Result.Status != "unsat" && o.Result.Status != "sat") {
					o.Result = first[o]
				}
			}
		}
	}
	if *tier == "thorough" {
		// independent confirmation: every discharged obligation is re-run on a second solver
		confirmAll(obs, outDir+"/confirm", timeout, *jobs, seed)
	}

	ledgerPath := filepath.Join(*verif, "ledger.json")
	ledger := loadLedger(ledgerPath)
	lp := ledger.Props[*prop]
	if lp == nil {
		lp = &LedgerProp{Obligations: map[string]*LedgerEntry{}, NoPanicFuncs: map[string]int{}}
	}
	known, _ := loadKnown(filepath.Join(*verif, "known-findings.txt"))

	// ---- classify ----
	type viol struct {
		o      *Oblig
		reason string
		name   string
	}
	var violations []viol
	var undecided []string
	var knownHit []string
	discharged := 0
	claimed := 0
	byBackend := map[string]int{}
	var solverMs int64
	current := map[string]*Oblig{}
	failK1ByFunc := map[string][]*Oblig{}
	isKnown := func(name string) *knownFinding {
		for i := range known {
			if known[i].prop == *prop && (known[i].oblig == name || known[i].oblig == stripReturnSuffix(name)) {
				return &known[i]
			}
		}
		return nil
	}
	for _, o := range obs {
		current[o.Name] = o
		if o.Result != nil {
			solverMs += o.Result.Ms
		}
		if o.ok() {
			discharged++
			claimed++
			if o.Result != nil {
				byBackend[o.Result.Backend]++
			}
			continue
		}
		if kf := isKnown(o.Name); kf != nil {
			// a listed genuine defect: reported, not counted among the obligations
			// this run claims (the clause is known not to hold)
			knownHit = append(knownHit, kf.text)
			continue
		}
		if o.Cover {
			// vacuity guard proved unreachable: the contract became contradictory
			violations = append(violations, viol{o, "vacuity guard: the point is provably unreachable (contradictory precondition or dead contract)", o.Name})
			claimed++
			continue
		}
		_, inLedger := lp.Obligations[o.Name]
		if inLedger || o.Kind == "resolve" {
			violations = append(violations, viol{o, "obligation discharged on the unchanged tree no longer holds", o.Name})
			claimed++
			continue
		}
		if k1Kinds[o.Kind] {
			failK1ByFunc[o.Func] = append(failK1ByFunc[o.Func], o)
			continue
		}
		// a contract clause obligation that is new (contract or code changed shape)
		if fnHadContractLedger(lp, o.Func) {
			violations = append(violations, viol{o, "contract obligation of a function whose contract was fully discharged on the unchanged tree fails", o.Name})
			claimed++
			continue
		}
		undecided = append(undecided, o.Name+" ("+o.Result.Status+")")
	}
	for fn, os2 := range failK1ByFunc {
		if _, ok := lp.NoPanicFuncs[fn]; ok {
			for _, o := range os2 {
				violations = append(violations, viol{o, "no-panic obligation in a function proved panic-free on the unchanged tree", o.Name})
				claimed++
			}
		} else {
			for _, o := range os2 {
				undecided = append(undecided, o.Name+" ("+o.Result.Status+")")
			}
		}
	}
	// ledger clause obligations that disappeared although their function is still there
	funcsNow := map[string]bool{}
	for _, e := range encs {
		if e.unsupported == "" {
			funcsNow[e.Key] = true
		}
	}
	var missing []string
	for name, le := range lp.Obligations {
		if _, ok := current[name]; ok {
			continue
		}
		if k1Kinds[le.Kind] || le.Kind == "cover" || strings.HasPrefix(le.Kind, "inv") && strings.Contains(name, "[auto:") {
			continue // generated from the code's own expressions: nothing left to prove
		}
		fn := name
		if k := strings.Index(name, "#"); k > 0 {
			fn = name[:k]
		}
		if !funcsNow[fn] && !P.hasFunc(fn) {
			// the function a contract names is gone: the proof no longer covers the code that runs
			missing = append(missing, name+" (function no longer exists)")
			continue
		}
		if !funcsNow[fn] {
			continue // reported under unsupported
		}
		// name changes caused only by a different number of return points are tolerated
		if base := stripReturnSuffix(name); base != name || hasReturnVariant(current, name) {
			if hasReturnVariant(current, base) {
				continue
			}
		}
		missing = append(missing, name)
	}
	sort.Strings(missing)
	for _, m := range missing {
		violations = append(violations, viol{nil, "contract obligation recorded in the ledger was not generated (its target no longer resolves)", m})
	}
	for _, se := range specErrs {
		violations = append(violations, viol{nil, "contract does not resolve against the code: " + se, "spec-error: " + se})
	}
	for _, u := range unsupported {
		key := u
		if k := strings.Index(u, ": "); k > 0 {
			key = u[:k]
		}
		if ledgerHasFunc(lp, key) {
			undecided = append(undecided, "function can no longer be encoded: "+u)
		} else {
			// never silent: a function in scope that is neither encoded nor
			// explicitly skipped in its contract file
			undecided = append(undecided, "function in scope is not encodable (add a skip with the reason, or extend the engine): "+u)
		}
	}
	sort.Strings(undecided)

	// ---- bounded stand-in (labelled bounded; never counted as discharged) ----
	var bounded map[string]interface{}
	type bmis struct {
		Key   string      `json:"key"`
		Input interface{} `json:"input"`
		Got   interface{} `json:"got"`
		Want  interface{} `json:"want"`
	}
	var bviol []bmis
	if *boundedFile != "" {
		data, err := os.ReadFile(*boundedFile)
		if err != nil {
			violations = append(violations, viol{nil, "bounded stand-in did not run: " + err.Error(), "bounded: report missing"})
		} else {
			var rep struct {
				Check      string   `json:"check"`
				Bound      string   `json:"bound"`
				Cases      int64    `json:"cases"`
				Distinct   int64    `json:"distinct_nontrivial"`
				Abstained  int64    `json:"abstained"`
				Mismatches []bmis   `json:"mismatches"`
				Samples    []string `json:"samples"`
				Exhaustive bool     `json:"exhaustive"`
			}
			json.Unmarshal(data, &rep)
			bounded = map[string]interface{}{"label": "bounded", "check": rep.Check, "bound": rep.Bound, "cases": rep.Cases, "compared": rep.Distinct, "oracle_abstained": rep.Abstained, "mismatches": len(rep.Mismatches), "exhaustive_within_bound": rep.Exhaustive, "samples": rep.Samples}
			if rep.Cases == 0 {
				violations = append(violations, viol{nil, "bounded stand-in explored no case", "bounded: no cases"})
			}
			for _, m := range rep.Mismatches {
				name := "bounded " + rep.Check + ": " + m.Key
				if kf := isKnown(name); kf != nil {
					knownHit = append(knownHit, kf.text)
					continue
				}
				bviol = append(bviol, m)
			}
		}
	}

	// ---- report ----
	{
		seen := map[string]bool{}
		var uniq []string
		for _, k := range knownHit {
			if !seen[k] {
				seen[k] = true
				uniq = append(uniq, k)
			}
		}
		knownHit = uniq
	}
	for _, k := range knownHit {
		fmt.Printf("KNOWN-FINDING: %s\n", k)
	}
	for _, u := range undecided {
		fmt.Printf("UNDECIDED %s\n", u)
	}
	nviol := 0
	seenV := map[string]bool{}
	for i, v := range violations {
		if seenV[v.name] {
			continue
		}
		seenV[v.name] = true
		nviol++
		path := filepath.Join(replayDir, fmt.Sprintf("v%03d.json", i))
		suffix := writeReplay(P, path, *prop, v.name, v.reason, v.o)
		fmt.Printf("VIOLATION property=%s replay=%s%s\n", *prop, path, suffix)
		fmt.Printf("  obligation: %s\n  reason: %s\n", v.name, v.reason)
	}

	// mismatches of the bounded stand-in are failing inputs of the real code
	for i, m := range bviol {
		if i >= 5 {
			break // one input per class is enough; the report file has all of them
		}
		nviol++
		path := filepath.Join(replayDir, fmt.Sprintf("b%03d.json", i))
		data, _ := json.MarshalIndent(map[string]interface{}{"property": *prop, "obligation": "bounded stand-in: real code disagrees with the reference written from the property", "input": m.Input, "got": m.Got, "want": m.Want, "confirmed_on_real_code": true, "all_mismatches": *boundedFile}, "", " ")
		os.WriteFile(path, data, 0o644)
		fmt.Printf("VIOLATION property=%s replay=%s\n", *prop, path)
		fmt.Printf("  bounded stand-in: input %v: got %v, want %v\n", m.Input, m.Got, m.Want)
	}
	if len(bviol) > 5 {
		fmt.Printf("  (%d more mismatching inputs in %s)\n", len(bviol)-5, *boundedFile)
	}
	if *update && (nviol == 0 || *force) {
		nl := &LedgerProp{Obligations: map[string]*LedgerEntry{}, NoPanicFuncs: map[string]int{}}
		k1ok := map[string]bool{}
		k1n := map[string]int{}
		for _, e := range encs {
			if e.unsupported == "" {
				k1ok[e.Key] = true
			}
		}
		for _, o := range obs {
			if k1Kinds[o.Kind] {
				k1n[o.Func]++
			}
			if o.ok() && !o.Cover && o.Result.Ms < int64(timeout)*200 {
				nl.Obligations[o.Name] = &LedgerEntry{Kind: o.Kind, Backend: o.Result.Backend, Ms: o.Result.Ms}
			} else if !o.ok() && k1Kinds[o.Kind] {
				k1ok[o.Func] = false
			}
		}
		for _, e := range encs {
			if e.unsupported == "" && k1ok[e.Key] && hasProp(P.funcProps(e.Top), *prop) {
				nl.NoPanicFuncs[e.Key] = k1n[e.Key]
			}
		}
		ledger.Props[*prop] = nl
		data, _ := json.MarshalIndent(ledger, "", " ")
		os.WriteFile(ledgerPath, data, 0o644)
		fmt.Printf("ledger updated: %d obligations, %d panic-free functions\n", len(nl.Obligations), len(nl.NoPanicFuncs))
	}

	cov := map[string]interface{}{}
	cov["obligations"] = claimed
	cov["discharged"] = discharged
	cov["undecided_new_obligations"] = len(undecided)
	cov["by_backend"] = byBackend
	byKind := map[string]int{}
	byFunc := map[string]int{}
	for _, o := range obs {
		if o.ok() {
			byKind[o.Kind]++
			byFunc[o.Func]++
		}
	}
	cov["discharged_by_kind"] = byKind
	cov["discharged_by_function"] = byFunc
	cov["solver_ms_total"] = solverMs
	var fnames []string
	for _, e := range encs {
		if e.unsupported == "" {
			fnames = append(fnames, e.Key)
		}
	}
	cov["functions_under_contract"] = fnames
	cov["functions_not_encodable"] = unsupported
	cov["functions_skipped"] = skippedFns
	var samples []map[string]string
	for i, o := range obs {
		if i%maxInt(1, len(obs)/6) == 0 && len(samples) < 8 {
			samples = append(samples, map[string]string{"obligation": o.Name, "kind": o.Kind, "at": o.Pos, "goal": truncate(o.Goal.S, 300), "result": o.Result.Status, "backend": o.Result.Backend})
		}
	}
	cov["samples"] = samples
	var waived, faults []string
	assume := map[string]bool{}
	invs := map[string]bool{}
	for _, e := range encs {
		waived = append(waived, e.waived...)
		faults = append(faults, e.faultPoints...)
		for k := range e.usedAssumes {
			assume["assumed (unproved) postcondition: "+k] = true
		}
		for k := range e.usedInvs {
			invs[k] = true
		}
	}
	cov["waived_not_proved"] = waived
	cov["specified_fault_points"] = len(faults)
	cov["known_findings"] = knownHit
	cov["vacuity_guards"] = countCovers(obs)
	if bounded != nil {
		cov["bounded_stand_in"] = bounded
	}
	writeEvidence(*verif, *prop, *tier, seed, cov, assumptionsList(assume, invs), time.Since(t0), nil, nviol, nil)
	fmt.Printf("property %s (%s): %d obligations, %d discharged, %d undecided, %d known, %d violations, %.1fs\n", *prop, *tier, claimed, discharged, len(undecided), len(knownHit), nviol, time.Since(t0).Seconds())
	if nviol > 0 {
		os.Exit(1)
	}
}

func maxInt(a, b int) int {
	if a > b {
		return a
	}
	return b
}

func truncate(s string, n int) string {
	if len(s) > n {
		return s[:n] + "..."
	}
	return s
}

func countCovers(obs []*Oblig) int {
	n := 0
	for _, o := range obs {
		if o.Cover {
			n++
		}
	}
	return n
}

func specMentionsProp(sp *FuncSpec, p string) bool {
	if sp == nil {
		return false
	}
	for _, cs := range [][]*Clause{sp.Requires, sp.Ensures, sp.Frames} {
		for _, c := range cs {
			if hasProp(c.Props, p) {
				return true
			}
		}
	}
	for _, l := range sp.Loops {
		for _, c := range append(append([]*Clause{}, l.Invariants...), l.Decreases...) {
			if hasProp(c.Props, p) {
				return true
			}
		}
	}
	for _, a := range sp.Asserts {
		if a.Clause != nil && hasProp(a.Clause.Props, p) {
			return true
		}
	}
	return false
}

func (P *Program) hasFunc(key string) bool {
	_, ok := P.Funcs[key]
	return ok
}

func fnHadContractLedger(lp *LedgerProp, fn string) bool {
	for name, le := range lp.Obligations {
		if strings.HasPrefix(name, fn+"#") && !k1Kinds[le.Kind] {
			return true
		}
	}
	return false
}

func ledgerHasFunc(lp *LedgerProp, fn string) bool {
	if _, ok := lp.NoPanicFuncs[fn]; ok {
		return true
	}
	for name := range lp.Obligations {
		if strings.HasPrefix(name, fn+"#") {
			return true
		}
	}
	return false
}

var retSuffix = regexp.MustCompile(` @return\d+\]`)

func stripReturnSuffix(name string) string {
	return retSuffix.ReplaceAllString(name, "]")
}

func hasReturnVariant(cur map[string]*Oblig, name string) bool {
	base := stripReturnSuffix(name)
	for n := range cur {
		if stripReturnSuffix(n) == base {
			return true
		}
	}
	return false
}

func assumptionsList(assume, invs map[string]bool) []string {
	out := []string{
		"go/packages, go/types and go/ssa (x/tools v0.29.0) render the source faithfully; the SSA->SMT encoder of /verif/govc is correct (DESIGN 2.4, 2.5)",
		"SMT solvers z3 4.8.12, z3 5.1.0, cvc5 1.0.3 are sound",
		"integers of functions in mode int are mathematical (no overflow of lengths and indices)",
		"goroutine scheduling, channels, mutexes and atomics are abstracted (values exchanged are arbitrary); nothing is claimed about interleavings",
		"object invariants (wf) hold at call boundaries (visible-state semantics); functions that store to a type's fields are checked to restore its invariant on return",
		"parameters of pointer-to-node type of unexported functions are non-nil (checked at every call site in the repository)",
		"func values of a signature no exported API accepts are closures of the same package (closed-world call graph for func values)",
	}
	var ks []string
	for k := range assume {
		ks = append(ks, k)
	}
	sort.Strings(ks)
	out = append(out, ks...)
	var is []string
	for k := range invs {
		is = append(is, k)
	}
	sort.Strings(is)
	if len(is) > 0 {
		out = append(out, "type invariants assumed of inputs (established by the producing package): "+strings.Join(is, ", "))
	}
	for _, x := range usedExternList() {
		out = append(out, "assumed contract of dependency: "+x)
	}
	return out
}

func writeEvidence(verif, prop, tier string, seed int, cov map[string]interface{}, assumptions []string, wall time.Duration, notes []string, nviol int, _ interface{}) {
	if cov == nil {
		cov = map[string]interface{}{"obligations": 0, "discharged": 0, "evaluations": 0, "distinct_nontrivial": 0}
	}
	cov["checker_cmd"] = fmt.Sprintf("/verif/check %s %s  (govc check: VCs from go/ssa of /repo, discharged by z3-new 5.1.0 | cvc5 1.0.3 | z3 4.8.12)", prop, tier)
	cov["trusted_base"] = []string{"golang.org/x/tools/go/ssa v0.29.0", "/verif/govc VC generator", "z3 4.8.12", "z3 5.1.0", "cvc5 1.0.3", "goyacc driver and tables (grammar actions are not reached by this check)"}
	if notes != nil {
		cov["notes"] = notes
	}
	ev := map[string]interface{}{
		"property_id": prop,
		"tier":        tier,
		"seed":        seed,
		"level":       "proof",
		"coverage":    cov,
		"assumptions": assumptions,
		"wall_s":      wall.Seconds(),
		"violations":  nviol,
	}
	data, _ := json.MarshalIndent(ev, "", " ")
	os.MkdirAll(filepath.Join(verif, "evidence"), 0o755)
	os.WriteFile(filepath.Join(verif, "evidence", prop+".json"), data, 0o644)
}

// writeReplay records a violation; returns the suffix for the VIOLATION line.
// replayBudget bounds the number of replay searches per run (each may take a minute).
var replayBudget = 3

func writeReplay(P *Program, path, prop, name, reason string, o *Oblig) string {
	rec := map[string]interface{}{
		"property":   prop,
		"obligation": name,
		"reason":     reason,
	}
	suffix := " no-failing-input-found"
	if o != nil {
		rec["kind"] = o.Kind
		rec["at"] = o.Pos
		rec["function"] = o.Func
		rec["goal"] = o.Goal.S
		if o.Result != nil {
			rec["solver_status"] = o.Result.Status
			rec["solver_backend"] = o.Result.Backend
			rec["solver_output"] = truncate(o.Result.Output, 4000)
			rec["query"] = o.Result.Query
			if len(o.Result.Model) > 0 {
				rec["model"] = o.Result.Model
			}
			if os.Getenv("GOVC_NOREPLAY") != "" {
				replayBudget = 0
			}
			if replayBudget > 0 {
				replayBudget--
				rp := tryReplay(P, o)
				rec["replay"] = rp
				if rp != nil && rp.Confirmed {
					suffix = ""
					rec["failing_input"] = rp.Input
				}
			} else {
				rec["replay"] = &ReplayResult{Note: "replay budget of this run used up by earlier violations"}
			}
		}
	}
	data, _ := json.MarshalIndent(rec, "", " ")
	os.WriteFile(path, data, 0o644)
	return suffix
}

// confirmAll re-runs discharged obligations on a different solver.
func confirmAll(obs []*Oblig, dir string, timeoutS, jobs, seed int) {
	var todo []*Oblig
	for _, o := range obs {
		if o.ok() && !o.Cover {
			todo = append(todo, o)
		}
	}
	type saved struct{ r *SolveResult }
	prev := map[*Oblig]*SolveResult{}
	for _, o := range todo {
		prev[o] = o.Result
	}
	byFirst := map[int][]*Oblig{}
	for _, o := range todo {
		alt := 1
		if strings.HasPrefix(prev[o].Backend, "cvc5") {
			alt = 0
		}
		byFirst[alt] = append(byFirst[alt], o)
	}
	for alt, os2 := range byFirst {
		solveAll(os2, fmt.Sprintf("%s-%d", dir, alt), timeoutS, jobs, seed+1, []int{alt}, false)
	}
	for _, o := range todo {
		second := o.Result
		o.Result = prev[o]
		if second != nil && second.Status == "sat" {
			// disagreement: do not trust the proof
			o.Result = second
		} else if second != nil && second.Status == "unsat" {
			o.Result.Backend = prev[o].Backend + "+" + second.Backend
		}
	}
}
