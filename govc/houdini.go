package main

import (
	"fmt"
	"go/token"
	"go/types"
	"os"
	"path/filepath"
	"sort"
	"strings"

	"golang.org/x/tools/go/ssa"
)

// Houdini-style inference of simple loop invariants (DESIGN 2.4): start from
// a template set, drop what is not inductive, keep the rest.

type candidate struct {
	name string
	gen  func(f *Frame, get func(ssa.Value) (Term, bool), st *State) (Term, bool)
}

// loopKey identifies a loop across re-encodings.
type loopKey struct {
	fn     *ssa.Function
	header int
}

func (e *Enc) loopCandidates(f *Frame, li *loopInfo) []*Clause {
	var out []*Clause
	h := li.header
	addC := func(name string, gen func(f *Frame, get func(ssa.Value) (Term, bool), st *State) (Term, bool)) {
		out = append(out, &Clause{Name: "auto: " + name, Text: name, Gen: gen, Props: nil})
	}
	for _, in := range h.Instrs {
		phi, ok := in.(*ssa.Phi)
		if !ok {
			break
		}
		p := phi
		pn := p.Comment
		if pn == "" {
			pn = p.Name()
		}
		srt := f.sortFor(p)
		// value on entry to the loop (merged over the entry edges)
		entryOf := func(f *Frame) (Term, bool) {
			if m := f.entryVals[h]; m != nil {
				t, ok := m[p]
				return t, ok && t.S != ""
			}
			return Term{}, false
		}
		hasInit := true
		switch srt {
		case SInt:
			if b, ok := p.Type().Underlying().(*types.Basic); !ok || b.Info()&types.IsInteger == 0 {
				continue
			}
			for _, lo := range []int64{0, -1} {
				lo := lo
				addC(fmt.Sprintf("%s >= %d", pn, lo), func(f *Frame, get func(ssa.Value) (Term, bool), st *State) (Term, bool) {
					v, ok := get(p)
					return ge(v, intLit(lo)), ok
				})
			}
			if hasInit {
				addC(fmt.Sprintf("%s >= entry(%s)", pn, pn), func(f *Frame, get func(ssa.Value) (Term, bool), st *State) (Term, bool) {
					v, ok := get(p)
					i, ok2 := entryOf(f)
					if ok2 && i.Sort != SInt {
						return tTrue, false
					}
					return ge(v, i), ok && ok2
				})
			}
		case SBV:
			if isFlagType(p.Type()) || isUnsigned(p.Type()) {
				continue
			}
			addC(fmt.Sprintf("%s >= 0 (bv)", pn), func(f *Frame, get func(ssa.Value) (Term, bool), st *State) (Term, bool) {
				v, ok := get(p)
				return mk(SBool, "bvsge", v, bvLit(0)), ok
			})
			addC(fmt.Sprintf("%s <= 1<<32 (bv)", pn), func(f *Frame, get func(ssa.Value) (Term, bool), st *State) (Term, bool) {
				v, ok := get(p)
				return mk(SBool, "bvsle", v, bvLit(1<<32)), ok
			})
		case SSlice:
			// the slice is nil or lives in memory allocated since the loop was
			// entered (so writes through it cannot touch anything older)
			addC(fmt.Sprintf("%s is nil or allocated since loop entry", pn), func(f *Frame, get func(ssa.Value) (Term, bool), st *State) (Term, bool) {
				v, ok := get(p)
				hi := f.headerIn[h]
				if hi == nil {
					return tTrue, false
				}
				return or(eq(slBase(v), intLit(0)), gt(slBase(v), hi.st.alloc)), ok
			})
			addC(fmt.Sprintf("len(%s) >= 1", pn), func(f *Frame, get func(ssa.Value) (Term, bool), st *State) (Term, bool) {
				v, ok := get(p)
				return ge(slLen(v), intLit(1)), ok
			})
			if hasInit {
				addC(fmt.Sprintf("len(%s) >= len(entry(%s))", pn, pn), func(f *Frame, get func(ssa.Value) (Term, bool), st *State) (Term, bool) {
					v, ok := get(p)
					i, ok2 := entryOf(f)
					return ge(slLen(v), slLen(i)), ok && ok2
				})
			}
		case SStr:
			if hasInit {
				addC(fmt.Sprintf("len(%s) <= len(entry(%s))", pn, pn), func(f *Frame, get func(ssa.Value) (Term, bool), st *State) (Term, bool) {
					v, ok := get(p)
					i, ok2 := entryOf(f)
					return le(sLen(v), sLen(i)), ok && ok2
				})
			}
		}
	}
	// two-state postconditions of the function ("nothing here replaces X") are
	// proposed as invariants of each of its loops, relating the loop head to
	// the function's entry state
	if sp := e.P.specFor(f.fn); sp != nil {
		for _, en := range sp.Ensures {
			if strings.Contains(en.Text, "result") || strings.Contains(en.Text, "site") || strings.Contains(en.Text, "at(") {
				continue
			}
			cl := en
			fn := f.fn
			addC("post "+en.Name, func(f *Frame, get func(ssa.Value) (Term, bool), st *State) (Term, bool) {
				if f.fn != fn || f.entry == nil {
					return tTrue, false
				}
				env := &SpecEnv{f: f, names: map[string]Term{}, types: map[string]types.Type{}, cur: st, old: f.entry}
				if fn.Pkg != nil {
					env.pkg = fn.Pkg.Pkg
				}
				for _, p := range fn.Params {
					t, ok := get(p)
					if !ok {
						return tTrue, false
					}
					env.names[p.Name()] = t
					env.types[p.Name()] = p.Type()
				}
				t, err := env.evalBool(cl.Expr)
				if err != nil {
					return tTrue, false
				}
				return t, true
			})
		}
	}
	// heap templates: fields of the pointer parameters keep their entry value / length
	var roots []*ssa.Parameter
	for fn := f.fn; fn != nil; fn = fn.Parent() {
		roots = append(roots, fn.Params...)
	}
	for _, prm := range roots {
		_, stT, ok := isStructPtr(prm.Type())
		if !ok || opaqueStruct(stT) != "" {
			continue
		}
		st := stT.Underlying().(*types.Struct)
		for i := 0; i < st.NumFields(); i++ {
			fam := fieldFamily(stT, i)
			if _, hav := li.fams[fam]; !hav && !li.all {
				continue
			}
			ft := st.Field(i).Type()
			if _, nested := ft.Underlying().(*types.Struct); nested {
				continue
			}
			fs := e.structFieldSort(stT, i)
			pp, ii, tt := prm, i, stT
			cur := func(f *Frame, get func(ssa.Value) (Term, bool), st *State) (Term, Term, bool) {
				ref, ok := get(pp)
				if !ok {
					return Term{}, Term{}, false
				}
				a := sel(f.e.family(st, fieldFamily(tt, ii), arraySort(SInt, fs)), ref, fs)
				pre := f.entry
				if hi := f.headerIn[h]; hi != nil {
					pre = hi.st // the state just before the loop
				}
				b := sel(f.e.family(pre, fieldFamily(tt, ii), arraySort(SInt, fs)), ref, fs)
				return a, b, true
			}
			fname := prm.Name() + "." + st.Field(i).Name()
			switch fs {
			case SInt, SBool, SStr, SBV:
				addC(fmt.Sprintf("%s unchanged by the loop", fname), func(f *Frame, get func(ssa.Value) (Term, bool), st *State) (Term, bool) {
					a, b, ok := cur(f, get, st)
					return eq(a, b), ok
				})
			case SSlice:
				addC(fmt.Sprintf("len(%s) unchanged by the loop", fname), func(f *Frame, get func(ssa.Value) (Term, bool), st *State) (Term, bool) {
					a, b, ok := cur(f, get, st)
					return eq(slLen(a), slLen(b)), ok
				})
				addC(fmt.Sprintf("len(%s) >= 1", fname), func(f *Frame, get func(ssa.Value) (Term, bool), st *State) (Term, bool) {
					a, _, ok := cur(f, get, st)
					return ge(slLen(a), intLit(1)), ok
				})
			}
		}
	}
	// whole-family templates: the loop as a whole leaves a heap component unchanged
	if !li.all {
		var fams []string
		for fam := range li.fams {
			if strings.HasPrefix(fam, "F.") {
				fams = append(fams, fam)
			}
		}
		sort.Strings(fams)
		for _, fam := range fams {
			fm, srt := fam, li.fams[fam]
			addC(fmt.Sprintf("%s unchanged by the loop", fm), func(f *Frame, get func(ssa.Value) (Term, bool), st *State) (Term, bool) {
				pre := f.entry
				if hi := f.headerIn[h]; hi != nil {
					pre = hi.st
				}
				return eq(f.e.family(st, fm, srt), f.e.family(pre, fm, srt)), true
			})
		}
	}
	// pairs: integer phi bounded by the length of a string/slice phi of the same header
	var intPhis, seqPhis []*ssa.Phi
	for _, in := range h.Instrs {
		phi, ok := in.(*ssa.Phi)
		if !ok {
			break
		}
		switch f.sortFor(phi) {
		case SInt:
			if b, ok := phi.Type().Underlying().(*types.Basic); ok && b.Info()&types.IsInteger != 0 && b.Kind() != types.Int32 {
				intPhis = append(intPhis, phi)
			}
		case SStr, SSlice:
			seqPhis = append(seqPhis, phi)
		}
	}
	for _, ip := range intPhis {
		for _, sp := range seqPhis {
			ip, sp := ip, sp
			addC(fmt.Sprintf("%s <= len(%s)", phiName(ip), phiName(sp)), func(f *Frame, get func(ssa.Value) (Term, bool), st *State) (Term, bool) {
				v, ok := get(ip)
				w, ok2 := get(sp)
				if w.Sort == SStr {
					return le(v, sLen(w)), ok && ok2
				}
				return le(v, slLen(w)), ok && ok2
			})
		}
	}
	// upper bounds from comparisons in the loop: phi (+c) < X with X defined outside the loop
	for b := range li.body {
		for _, in := range b.Instrs {
			bo, ok := in.(*ssa.BinOp)
			if !ok {
				continue
			}
			var small, big ssa.Value
			strict := false
			switch bo.Op {
			case token.LSS:
				small, big, strict = bo.X, bo.Y, true
			case token.LEQ:
				small, big = bo.X, bo.Y
			case token.GTR:
				small, big, strict = bo.Y, bo.X, true
			case token.GEQ:
				small, big = bo.Y, bo.X
			default:
				continue
			}
			_ = strict
			phi, off := phiPlusConst(small, h)
			if phi == nil || f.sortFor(phi) != SInt {
				continue
			}
			if !definedOutside(big, li) {
				continue
			}
			p, bg, o := phi, big, off
			pn := p.Comment
			if pn == "" {
				pn = p.Name()
			}
			addC(fmt.Sprintf("%s%+d <= %s", pn, o, bg.Name()), func(f *Frame, get func(ssa.Value) (Term, bool), st *State) (Term, bool) {
				v, ok := get(p)
				w, ok2 := get(bg)
				if w.Sort != SInt {
					return tTrue, false
				}
				return le(add(v, intLit(o)), w), ok && ok2
			})
		}
	}
	return out
}

func phiPlusConst(v ssa.Value, h *ssa.BasicBlock) (*ssa.Phi, int64) {
	if p, ok := v.(*ssa.Phi); ok && p.Block() == h {
		return p, 0
	}
	if bo, ok := v.(*ssa.BinOp); ok && (bo.Op == token.ADD || bo.Op == token.SUB) {
		if p, ok := bo.X.(*ssa.Phi); ok && p.Block() == h {
			if c, ok := bo.Y.(*ssa.Const); ok && c.Value != nil {
				n := c.Int64()
				if bo.Op == token.SUB {
					n = -n
				}
				return p, n
			}
		}
	}
	return nil, 0
}

func definedOutside(v ssa.Value, li *loopInfo) bool {
	switch x := v.(type) {
	case *ssa.Const, *ssa.Parameter, *ssa.FreeVar:
		return true
	case ssa.Instruction:
		return !li.body[x.Block()]
	}
	return false
}

// inferAll runs the Houdini loop for many functions at once, so that the
// candidate checks of one round are solved together in parallel.
func inferAll(P *Program, U *Universe, fns []*ssa.Function, dir string, seed int) map[*ssa.Function]map[loopKey][]*Clause {
	type st struct {
		kept  map[loopKey][]*Clause
		first bool
		done  bool
	}
	states := map[*ssa.Function]*st{}
	var active []*ssa.Function
	for _, fn := range fns {
		if hasLoops(P, fn, 0, map[*ssa.Function]bool{}) {
			states[fn] = &st{kept: map[loopKey][]*Clause{}, first: true}
			active = append(active, fn)
		}
	}
	debug := os.Getenv("GOVC_DEBUG") != ""
	cache := loadHoudiniCache(P, filepath.Join(filepath.Dir(filepath.Dir(dir)), "houdini-cache"))
	fromCache := map[*ssa.Function]bool{}
	{
		var rest []*ssa.Function
		for _, fn := range active {
			ent, ok := cache.Funcs[funcKey(fn)]
			if !ok {
				rest = append(rest, fn)
				continue
			}
			s := states[fn]
			e := newEnc(P, U, fn)
			e.houdini = true
			e.keptInv = s.kept
			e.firstRound = true
			runEncoding(e, fn, nil)
			s.kept = map[loopKey][]*Clause{}
			if e.unsupported == "" {
				for k, cs := range e.candByLoop {
					want := map[string]bool{}
					for _, n := range ent[fmt.Sprintf("%s/%d", funcKey(k.fn), k.header)] {
						want[n] = true
					}
					for _, c := range cs {
						if want[c.Name] {
							s.kept[k] = append(s.kept[k], c)
						}
					}
				}
			}
			s.first = false
			s.done = true
			fromCache[fn] = true
		}
		active = rest
	}
	for round := 0; round < 8 && len(active) > 0; round++ {
		var obs []*Oblig
		owner := map[*Oblig]*ssa.Function{}
		for _, fn := range active {
			s := states[fn]
			e := newEnc(P, U, fn)
			e.houdini = true
			e.keptInv = s.kept
			e.firstRound = s.first
			runEncoding(e, fn, nil)
			if e.unsupported != "" {
				s.kept = map[loopKey][]*Clause{}
				s.done = true
				continue
			}
			if s.first {
				s.kept = e.candByLoop
				if s.kept == nil {
					s.kept = map[loopKey][]*Clause{}
				}
				s.first = false
				n := 0
				for _, cs := range s.kept {
					n += len(cs)
				}
				if n == 0 {
					s.done = true
				}
				continue
			}
			cnt := 0
			for _, o := range e.obligs {
				if o.auto != nil {
					obs = append(obs, o)
					owner[o] = fn
					cnt++
				}
			}
			if cnt == 0 {
				s.done = true
			}
		}
		if len(obs) > 0 {
			// candidates that are themselves quantified cannot be judged by the
			// quantifier-free abstraction: they go to the full solver
			var plain, quant []*Oblig
			for _, o := range obs {
				if strings.Contains(o.Goal.S, "(forall ") || strings.Contains(o.Goal.S, "(exists ") {
					quant = append(quant, o)
				} else {
					plain = append(plain, o)
				}
			}
			if len(quant) > 0 {
				solveAll(quant, dir+"-q", 5, 16, seed, []int{0, 1}, false)
			}
			qfSatFinal = os.Getenv("GOVC_HOUDINI_FULL") == ""
			solveAll(plain, dir, 2, 16, seed, []int{0}, false)
			// a candidate that was neither proved nor refuted (solver gave up
			// under the short budget) gets a second, longer attempt on all
			// solvers before it is dropped: which invariants are kept must not
			// depend on machine load
			var again []*Oblig
			for _, o := range obs {
				if !o.ok() && (o.Result == nil || o.Result.Status != "sat") {
					again = append(again, o)
				}
			}
			if len(again) > 0 {
				solveAll(again, dir+"-retry", 15, 16, seed, []int{0, 1, 2}, false)
			}
			qfSatFinal = false
			bad := map[*Clause]bool{}
			touched := map[*ssa.Function]bool{}
			for _, o := range obs {
				if !o.ok() {
					bad[o.auto] = true
					touched[owner[o]] = true
				}
			}
			for _, fn := range active {
				s := states[fn]
				if s.done || s.first {
					continue
				}
				if !touched[fn] {
					s.done = true
					continue
				}
				for k, cs := range s.kept {
					var nc []*Clause
					for _, c := range cs {
						if !bad[c] {
							nc = append(nc, c)
						}
					}
					s.kept[k] = nc
				}
			}
			if debug {
				fmt.Fprintf(os.Stderr, "houdini round %d: %d functions, %d candidate obligations, %d clauses dropped\n", round, len(active), len(obs), len(bad))
			}
		}
		var next []*ssa.Function
		for _, fn := range active {
			if !states[fn].done {
				next = append(next, fn)
			}
		}
		active = next
	}
	out := map[*ssa.Function]map[loopKey][]*Clause{}
	for fn, s := range states {
		if !s.done {
			// did not converge: keep nothing (sound: fewer assumed invariants)
			out[fn] = map[loopKey][]*Clause{}
			continue
		}
		out[fn] = s.kept
		if !fromCache[fn] {
			ent := map[string][]string{}
			for k, cs := range s.kept {
				var names []string
				for _, c := range cs {
					names = append(names, c.Name)
				}
				ent[fmt.Sprintf("%s/%d", funcKey(k.fn), k.header)] = names
			}
			cache.Funcs[funcKey(fn)] = ent
		}
	}
	cache.save()
	return out
}

func phiName(p *ssa.Phi) string {
	if p.Comment != "" {
		return p.Comment
	}
	return p.Name()
}
