package main

import (
	"fmt"
	"os"

	"golang.org/x/tools/go/ssa"

	"path/filepath"
	"regexp"
	"sort"
	"strconv"
	"strings"
)

// Specs holds every contract read from the contract files.
type Specs struct {
	Funcs         map[string]*FuncSpec
	PanicClasses  map[string]*Clause
	SpecFuncs     map[string]*SpecFunc
	Axioms        []*Clause
	Files         []string
	Errors        []string
	TypeInvs      map[string][]*Clause         // "pkg.Type" -> invariants over self (assumed whenever a reference is obtained)
	ElemsNonNil   map[string]bool              // package name -> slice elements of its pointer/interface types are non-nil
	DefaultOpaque map[string][]string          // package name -> default props: functions without a block are opaque contracts
	Symbols       map[string]map[string]string // package -> grammar symbol -> invariant over v (a yySymType)
	invFieldCache map[string]map[string]bool
	NeedVariants  map[string][]string  // package -> props: loops need variants
	Every         map[string]*FuncSpec // "pkg.(*T).*" -> clauses merged into every method's contract
	everyMerged   map[*FuncSpec]bool
}

type FuncSpec struct {
	Key      string
	File     string
	Line     int
	Props    []string
	Mode     string
	Requires []*Clause
	Ensures  []*Clause
	Assumes  []*Clause
	Lemmas   []*Clause // facts about ghost predicates assumed at entry (definitions, inductive consequences); listed as assumptions
	Loops    []*LoopSpec
	Waive    []*Waiver
	MayPanic string
	Recovers string
	Opaque   bool
	Trusted  bool
	NoInline bool
	Inline   bool
	Skip     string // not verified, with the reason (listed in evidence)
	Raw      []rawClause
	NilOK    []string // pointer parameters that may be nil (exempt from the implicit non-nil rule)
	DefProps []string
	Faults   []string // K1 kinds that are specified fault behaviour (run-time panics converted by a caller)
	Asserts  []*AnchorClause
	Sites    []*AnchorClause
	Frames   []*Clause // frame clauses: "preserves <family-pattern>"
	Ghost    []string
	Extern   bool     // assumed contract on a dependency
	Params   []string // for extern: parameter names
}

func (s *FuncSpec) hasContract() bool {
	return s != nil && (len(s.Requires) > 0 || len(s.Ensures) > 0 || len(s.Assumes) > 0 || s.Opaque || s.Trusted || s.Extern)
}

type rawClause struct {
	word, rest string
	line       int
}

type Clause struct {
	Guard *Clause // decreases ... if COND
	Text  string
	Expr  *SExpr
	Props []string
	Name  string
	Line  int
	// Gen builds an inferred (template) invariant directly over SSA values.
	Gen func(f *Frame, get func(ssa.Value) (Term, bool), st *State) (Term, bool)
}

type LoopSpec struct {
	Header     string
	Unbounded  string // reason why no variant is claimed
	Invariants []*Clause
	Decreases  []*Clause
	Steps      []*Clause // checked at every back edge, over the iteration that ends there
	Used       bool
	Line       int
}

type Waiver struct {
	Kind, Text, Reason string
	Used               bool
}

type AnchorClause struct {
	Name   string // site name or assertion label
	Anchor string // e.g. "call env.Set", "label Param", "return where ..."
	Clause *Clause
	Used   bool
}

type SpecFunc struct {
	Name   string
	Params []string
	PTypes []string
	Result string
	Body   *SExpr // nil: uninterpreted
}

var propTag = regexp.MustCompile(`^\[([A-Z0-9, ]+)\]\s*`)

func loadSpecs(paths []string) *Specs {
	S := &Specs{Funcs: map[string]*FuncSpec{}, PanicClasses: map[string]*Clause{}, SpecFuncs: map[string]*SpecFunc{},
		TypeInvs: map[string][]*Clause{}, ElemsNonNil: map[string]bool{}, DefaultOpaque: map[string][]string{}, Symbols: map[string]map[string]string{}}
	sort.Strings(paths)
	for _, p := range paths {
		S.Files = append(S.Files, p)
		data, err := os.ReadFile(p)
		if err != nil {
			S.Errors = append(S.Errors, err.Error())
			continue
		}
		S.parseFile(p, string(data))
	}
	return S
}

func findSpecFiles(repo, verif string) []string {
	var out []string
	m, _ := filepath.Glob(filepath.Join(repo, "*", "verif_contracts.go"))
	out = append(out, m...)
	m, _ = filepath.Glob(filepath.Join(verif, "contracts", "*.spec"))
	out = append(out, m...)
	return out
}

func (S *Specs) errf(file string, line int, format string, a ...interface{}) {
	S.Errors = append(S.Errors, fmt.Sprintf("%s:%d: %s", filepath.Base(filepath.Dir(file))+"/"+filepath.Base(file), line, fmt.Sprintf(format, a...)))
}

func (S *Specs) parseFile(file, text string) {
	pkg := ""
	var cur *FuncSpec
	var defProps []string
	lines := strings.Split(text, "\n")
	for i := 0; i < len(lines); i++ {
		ln := strings.TrimSpace(lines[i])
		if strings.HasPrefix(ln, "package ") && pkg == "" {
			pkg = strings.TrimSpace(ln[8:])
			continue
		}
		if !strings.HasPrefix(ln, "//@") {
			continue
		}
		body := strings.TrimSpace(ln[3:])
		// continuation lines: "//@+ ..."
		for i+1 < len(lines) && strings.HasPrefix(strings.TrimSpace(lines[i+1]), "//@+") {
			i++
			body += " " + strings.TrimSpace(strings.TrimSpace(lines[i])[4:])
		}
		if body == "" {
			continue
		}
		// strip trailing comment "   // ..."
		if k := strings.Index(body, "  // "); k >= 0 {
			body = strings.TrimSpace(body[:k])
		}
		word, rest := splitWord(body)
		lineNo := i + 1
		switch word {
		case "package":
			pkg = rest
		case "props":
			if cur == nil {
				defProps = strings.Fields(rest)
			} else {
				cur.Props = strings.Fields(rest)
			}
		case "symbol":
			// symbol a, b, c: <invariant over v>
			cur = nil
			k := strings.Index(rest, ":")
			if k < 0 {
				S.errf(file, lineNo, "symbol: expected 'names: invariant'")
				continue
			}
			if S.Symbols[pkg] == nil {
				S.Symbols[pkg] = map[string]string{}
			}
			if _, err := parseSpecExpr(strings.TrimSpace(rest[k+1:])); err != nil {
				S.errf(file, lineNo, "symbol: %v", err)
				continue
			}
			for _, n := range strings.Split(rest[:k], ",") {
				S.Symbols[pkg][strings.TrimSpace(n)] = "(" + strings.TrimSpace(rest[k+1:]) + ")"
			}
		case "action":
			// contract of a grammar action, named by its production; resolved to
			// the extracted function by Program.bindActions
			key := pkg + ".action " + strings.Join(strings.Fields(rest), " ")
			cur = &FuncSpec{Key: key, File: file, Line: lineNo, DefProps: defProps}
			if _, dup := S.Funcs[key]; dup {
				S.errf(file, lineNo, "duplicate contract for %s", key)
			}
			S.Funcs[key] = cur
		case "every":
			// every (*T).*: clauses added to the contract of every method of T,
			// whether or not it has a block of its own
			key := pkg + ".every " + strings.TrimSpace(rest)
			cur = &FuncSpec{Key: key, File: file, Line: lineNo, Props: defProps}
			if S.Every == nil {
				S.Every = map[string]*FuncSpec{}
			}
			S.Every[pkg+"."+strings.TrimSpace(rest)] = cur
		case "func", "extern":
			name := rest
			var params []string
			if word == "extern" {
				// extern func name(p1, p2)
				name = strings.TrimSpace(strings.TrimPrefix(rest, "func"))
				if k := strings.LastIndex(name, "("); k > 0 && strings.HasSuffix(name, ")") && !strings.HasPrefix(name, "(") || (k > 0 && strings.HasSuffix(name, ")") && strings.Count(name, "(") == 2) {
					ps := name[k+1 : len(name)-1]
					name = strings.TrimSpace(name[:k])
					for _, p := range strings.Split(ps, ",") {
						if p = strings.TrimSpace(p); p != "" {
							params = append(params, p)
						}
					}
				}
			} else {
				name = strings.TrimSpace(strings.TrimPrefix(rest, "func"))
			}
			key := name
			if word == "func" && pkg != "" {
				key = pkg + "." + name
			}
			cur = &FuncSpec{Key: key, File: file, Line: lineNo, Props: defProps, Extern: word == "extern", Params: params}
			if _, dup := S.Funcs[key]; dup {
				S.errf(file, lineNo, "duplicate contract for %s", key)
			}
			S.Funcs[key] = cur
		case "panicclass":
			n, ex := splitWord(rest)
			e, err := parseSpecExpr(ex)
			if err != nil {
				S.errf(file, lineNo, "panicclass: %v", err)
				continue
			}
			S.PanicClasses[n] = &Clause{Text: ex, Expr: e, Line: lineNo}
		case "default":
			cur = nil
			if rest == "variants" {
				// every loop of the package that is not a range loop needs a variant
				if S.NeedVariants == nil {
					S.NeedVariants = map[string][]string{}
				}
				S.NeedVariants[pkg] = defProps
				if defProps == nil {
					S.NeedVariants[pkg] = []string{}
				}
				continue
			}
			if rest == "opaque" {
				S.DefaultOpaque[pkg] = defProps
				if defProps == nil {
					S.DefaultOpaque[pkg] = []string{}
				}
			}
		case "wf":
			cur = nil
			if rest == "elems" {
				S.ElemsNonNil[pkg] = true
				continue
			}
			k := strings.Index(rest, ":")
			if k < 0 {
				S.errf(file, lineNo, "wf: expected 'Type: expr'")
				continue
			}
			tn := strings.TrimSpace(rest[:k])
			if !strings.Contains(tn, ".") {
				tn = pkg + "." + tn
			}
			ex := strings.TrimSpace(rest[k+1:])
			e, err := parseSpecExpr(ex)
			if err != nil {
				S.errf(file, lineNo, "wf %s: %v", tn, err)
				continue
			}
			S.TypeInvs[tn] = append(S.TypeInvs[tn], &Clause{Text: ex, Expr: e, Line: lineNo, Name: ex})
		case "spec":
			S.parseSpecFunc(file, lineNo, rest)
		case "axiom":
			props, ex := takeProps(rest)
			e, err := parseSpecExpr(ex)
			if err != nil {
				S.errf(file, lineNo, "axiom: %v", err)
				continue
			}
			S.Axioms = append(S.Axioms, &Clause{Text: ex, Expr: e, Props: props, Line: lineNo})
		default:
			if cur == nil {
				S.errf(file, lineNo, "clause %q outside a func block", word)
				continue
			}
			if strings.Contains(cur.Key, ".action ") {
				// parsed when the production (and its length) is known
				cur.Raw = append(cur.Raw, rawClause{word, rest, lineNo})
				continue
			}
			S.parseClause(file, lineNo, cur, word, rest)
		}
	}
}

func splitWord(s string) (string, string) {
	s = strings.TrimSpace(s)
	k := strings.IndexAny(s, " \t[")
	if k < 0 {
		return s, ""
	}
	if s[k] == '[' {
		return s[:k], s[k:]
	}
	return s[:k], strings.TrimSpace(s[k:])
}

func takeProps(s string) ([]string, string) {
	s = strings.TrimSpace(s)
	if m := propTag.FindStringSubmatch(s); m != nil {
		var ps []string
		for _, p := range strings.FieldsFunc(m[1], func(r rune) bool { return r == ',' || r == ' ' }) {
			ps = append(ps, p)
		}
		return ps, s[len(m[0]):]
	}
	return nil, s
}

func (S *Specs) parseClause(file string, line int, cur *FuncSpec, word, rest string) {
	mk := func(text string) *Clause {
		props, ex := takeProps(text)
		name := ""
		// optional label:  name: expr   (label is an identifier followed by ':' and a space, not '::')
		if m := regexp.MustCompile(`^([a-zA-Z][a-zA-Z0-9_-]*):\s+(.*)$`).FindStringSubmatch(ex); m != nil && m[1] != "forall" && m[1] != "exists" {
			name, ex = m[1], m[2]
		}
		e, err := parseSpecExpr(ex)
		if err != nil {
			S.errf(file, line, "%s: %v in %q", word, err, ex)
			return nil
		}
		if props == nil {
			props = cur.Props
		}
		if name == "" {
			name = ex
			if len(name) > 80 {
				name = name[:80]
			}
		}
		return &Clause{Text: ex, Expr: e, Props: props, Name: name, Line: line}
	}
	switch word {
	case "mode":
		cur.Mode = rest
	case "requires":
		if c := mk(rest); c != nil {
			cur.Requires = append(cur.Requires, c)
		}
	case "ensures":
		if c := mk(rest); c != nil {
			cur.Ensures = append(cur.Ensures, c)
		}
	case "assumes":
		// a postcondition callers may rely on that is NOT proved (listed as an assumption)
		if c := mk(rest); c != nil {
			cur.Assumes = append(cur.Assumes, c)
		}
	case "lemma":
		if c := mk(rest); c != nil {
			cur.Lemmas = append(cur.Lemmas, c)
		}
	case "faults":
		cur.Faults = append(cur.Faults, strings.Fields(rest)...)
	case "maypanic":
		cur.MayPanic = rest
	case "recovers":
		cur.Recovers = rest
	case "opaque":
		cur.Opaque = true
	case "trusted":
		cur.Trusted = true
	case "deterministic":
		props, _ := takeProps(rest)
		if props == nil {
			props = cur.Props
		}
		cur.Frames = append(cur.Frames, &Clause{Text: "deterministic", Props: props, Name: "deterministic", Line: line})
	case "nilok":
		cur.NilOK = append(cur.NilOK, strings.Fields(rest)...)
	case "noinline":
		cur.NoInline = true
	case "inline":
		cur.Inline = true
	case "skip":
		cur.Skip = rest
		if cur.Skip == "" {
			cur.Skip = "not under contract"
		}
	case "waive":
		// waive <kind> "text" reason...
		k, r := splitWord(rest)
		txt := ""
		if strings.HasPrefix(r, "\"") {
			if j := strings.Index(r[1:], "\""); j >= 0 {
				txt = r[1 : 1+j]
				r = strings.TrimSpace(r[j+2:])
			}
		}
		cur.Waive = append(cur.Waive, &Waiver{Kind: k, Text: txt, Reason: r})
	case "loop":
		// loop "header text" invariant|decreases expr
		q := "\""
		if strings.HasPrefix(rest, "`") {
			q = "`"
		}
		if !strings.HasPrefix(rest, q) {
			S.errf(file, line, "loop: expected quoted header")
			return
		}
		j := strings.Index(rest[1:], q)
		if j < 0 {
			S.errf(file, line, "loop: unterminated header")
			return
		}
		hdr := rest[1 : 1+j]
		kind, ex := splitWord(rest[j+2:])
		var ls *LoopSpec
		for _, l := range cur.Loops {
			if l.Header == hdr {
				ls = l
			}
		}
		if ls == nil {
			ls = &LoopSpec{Header: hdr, Line: line}
			cur.Loops = append(cur.Loops, ls)
		}
		var guard *Clause
		if kind == "decreases" {
			// decreases EXPR if COND: the variant is required on iterations that start with COND
			if k := strings.LastIndex(ex, " if "); k > 0 {
				guard = mk(strings.TrimSpace(ex[k+4:]))
				ex = strings.TrimSpace(ex[:k])
				if guard == nil {
					return
				}
			}
		}
		if kind == "unbounded" {
			// loop "hdr" unbounded <reason>: no variant is claimed for this loop
			ls.Unbounded = strings.TrimSpace(ex)
			return
		}
		c := mk(ex)
		if c == nil {
			return
		}
		c.Guard = guard
		switch kind {
		case "invariant":
			ls.Invariants = append(ls.Invariants, c)
		case "decreases":
			ls.Decreases = append(ls.Decreases, c)
		case "step":
			// loop "hdr" step name: E -- E holds whenever an iteration ends and the
			// loop goes round again; it may use the sites the iteration went through
			ls.Steps = append(ls.Steps, c)
		default:
			S.errf(file, line, "loop: unknown clause %q", kind)
		}
	case "site", "assert":
		// site NAME = <anchor>     |   assert at <anchor>: expr
		if word == "site" {
			parts := strings.SplitN(rest, "=", 2)
			if len(parts) != 2 {
				S.errf(file, line, "site: expected NAME = anchor")
				return
			}
			cur.Sites = append(cur.Sites, &AnchorClause{Name: strings.TrimSpace(parts[0]), Anchor: strings.TrimSpace(parts[1])})
		} else {
			props, r := takeProps(rest)
			r = strings.TrimPrefix(r, "at ")
			k := strings.Index(r, ": ")
			if k < 0 {
				S.errf(file, line, "assert: expected 'at <anchor>: expr'")
				return
			}
			c := mk(r[k+2:])
			if c == nil {
				return
			}
			if props != nil {
				c.Props = props
			}
			cur.Asserts = append(cur.Asserts, &AnchorClause{Anchor: strings.TrimSpace(r[:k]), Clause: c, Name: c.Name})
		}
	case "preserves":
		props, r := takeProps(rest)
		if props == nil {
			props = cur.Props
		}
		cur.Frames = append(cur.Frames, &Clause{Text: r, Props: props, Name: r, Line: line})
	case "callsonly":
		// callsonly[P] <callee name globs>: every call in the function is to one of these
		props, r := takeProps(rest)
		if props == nil {
			props = cur.Props
		}
		cur.Frames = append(cur.Frames, &Clause{Text: "callsonly " + r, Props: props, Name: "callsonly " + r, Line: line})
	case "calledby":
		// calledby[P] <function key globs>: a static call-graph clause
		props, r := takeProps(rest)
		if props == nil {
			props = cur.Props
		}
		cur.Frames = append(cur.Frames, &Clause{Text: "calledby " + r, Props: props, Name: "calledby " + r, Line: line})
	case "ghost":
		cur.Ghost = append(cur.Ghost, rest)
	default:
		S.errf(file, line, "unknown clause %q", word)
	}
}

func (S *Specs) parseSpecFunc(file string, line int, rest string) {
	// spec func name(a T, b U) R [= expr]
	rest = strings.TrimSpace(strings.TrimPrefix(rest, "func"))
	k := strings.Index(rest, "(")
	j := strings.Index(rest, ")")
	if k < 0 || j < k {
		S.errf(file, line, "spec func: syntax")
		return
	}
	sf := &SpecFunc{Name: strings.TrimSpace(rest[:k])}
	for _, p := range strings.Split(rest[k+1:j], ",") {
		p = strings.TrimSpace(p)
		if p == "" {
			continue
		}
		n, t := splitWord(p)
		sf.Params = append(sf.Params, n)
		sf.PTypes = append(sf.PTypes, t)
	}
	tail := strings.TrimSpace(rest[j+1:])
	if eqi := strings.Index(tail, "="); eqi >= 0 {
		sf.Result = strings.TrimSpace(tail[:eqi])
		e, err := parseSpecExpr(strings.TrimSpace(tail[eqi+1:]))
		if err != nil {
			S.errf(file, line, "spec func %s: %v", sf.Name, err)
			return
		}
		sf.Body = e
	} else {
		sf.Result = tail
	}
	S.SpecFuncs[sf.Name] = sf
}

// ---------------- expression syntax ----------------

type SExpr struct {
	Op   string // ident, int, str, rune, bool, nil, call, sel, index, slice, unary, binary, forall, exists, old, is, cast, cond
	Name string
	Args []*SExpr
	Vars []string
	Pos  int
}

type specLexer struct {
	s    string
	i    int
	tok  string
	kind string // id, int, str, rune, op, eof
}

func (l *specLexer) next() {
	for l.i < len(l.s) && (l.s[l.i] == ' ' || l.s[l.i] == '\t') {
		l.i++
	}
	if l.i >= len(l.s) {
		l.kind, l.tok = "eof", ""
		return
	}
	c := l.s[l.i]
	switch {
	case c == '_' || c >= 'a' && c <= 'z' || c >= 'A' && c <= 'Z':
		j := l.i
		for j < len(l.s) && (l.s[j] == '_' || l.s[j] >= 'a' && l.s[j] <= 'z' || l.s[j] >= 'A' && l.s[j] <= 'Z' || l.s[j] >= '0' && l.s[j] <= '9' || l.s[j] == '#' && j+1 < len(l.s) && l.s[j+1] >= '0' && l.s[j+1] <= '9') {
			j++
		}
		l.kind, l.tok = "id", l.s[l.i:j]
		l.i = j
	case c >= '0' && c <= '9':
		j := l.i
		for j < len(l.s) && (l.s[j] >= '0' && l.s[j] <= '9' || l.s[j] == 'x' || l.s[j] >= 'a' && l.s[j] <= 'f' || l.s[j] >= 'A' && l.s[j] <= 'F') {
			j++
		}
		l.kind, l.tok = "int", l.s[l.i:j]
		l.i = j
	case c == '"' || c == '`':
		j := l.i + 1
		for j < len(l.s) && l.s[j] != c {
			if l.s[j] == '\\' && c == '"' {
				j++
			}
			j++
		}
		if j < len(l.s) {
			j++
		}
		l.kind, l.tok = "str", l.s[l.i:j]
		l.i = j
	case c == '\'':
		j := l.i + 1
		for j < len(l.s) && l.s[j] != '\'' {
			if l.s[j] == '\\' {
				j++
			}
			j++
		}
		if j < len(l.s) {
			j++
		}
		l.kind, l.tok = "rune", l.s[l.i:j]
		l.i = j
	default:
		for _, op := range []string{"==>", "<==>", "&&", "||", "==", "!=", "<=", ">=", "<<", ">>", "&^", "++", ".("} {
			if strings.HasPrefix(l.s[l.i:], op) {
				l.kind, l.tok = "op", op
				l.i += len(op)
				return
			}
		}
		l.kind, l.tok = "op", string(c)
		l.i++
	}
}

type specParser struct {
	l   *specLexer
	err error
}

func parseSpecExpr(s string) (*SExpr, error) {
	p := &specParser{l: &specLexer{s: s}}
	p.l.next()
	e := p.expr()
	if p.err == nil && p.l.kind != "eof" {
		p.err = fmt.Errorf("unexpected %q at %d", p.l.tok, p.l.i)
	}
	return e, p.err
}

func (p *specParser) fail(format string, a ...interface{}) {
	if p.err == nil {
		p.err = fmt.Errorf(format, a...)
	}
}

func (p *specParser) accept(tok string) bool {
	if p.l.kind != "eof" && p.l.tok == tok && p.l.kind != "str" {
		p.l.next()
		return true
	}
	return false
}

func (p *specParser) expect(tok string) {
	if !p.accept(tok) {
		p.fail("expected %q, found %q at %d", tok, p.l.tok, p.l.i)
	}
}

func (p *specParser) expr() *SExpr {
	if p.l.kind == "id" && (p.l.tok == "forall" || p.l.tok == "exists") {
		op := p.l.tok
		p.l.next()
		var vars []string
		for {
			if p.l.kind != "id" {
				p.fail("expected variable")
				return &SExpr{Op: "bool", Name: "true"}
			}
			vars = append(vars, p.l.tok)
			p.l.next()
			if !p.accept(",") {
				break
			}
		}
		p.expect(":")
		body := p.expr()
		return &SExpr{Op: op, Vars: vars, Args: []*SExpr{body}}
	}
	return p.cond()
}

func (p *specParser) cond() *SExpr {
	c := p.impl()
	if p.accept("?") {
		a := p.cond()
		p.expect(":")
		b := p.cond()
		return &SExpr{Op: "cond", Args: []*SExpr{c, a, b}}
	}
	return c
}

func (p *specParser) impl() *SExpr {
	a := p.or()
	if p.accept("==>") {
		b := p.implRHS()
		return &SExpr{Op: "binary", Name: "==>", Args: []*SExpr{a, b}}
	}
	if p.accept("<==>") {
		b := p.or()
		return &SExpr{Op: "binary", Name: "<==>", Args: []*SExpr{a, b}}
	}
	return a
}

func (p *specParser) implRHS() *SExpr {
	if p.l.kind == "id" && (p.l.tok == "forall" || p.l.tok == "exists") {
		return p.expr()
	}
	return p.impl()
}

func (p *specParser) or() *SExpr {
	a := p.and()
	for p.accept("||") {
		b := p.and()
		a = &SExpr{Op: "binary", Name: "||", Args: []*SExpr{a, b}}
	}
	return a
}

func (p *specParser) and() *SExpr {
	a := p.cmp()
	for p.accept("&&") {
		b := p.cmp()
		a = &SExpr{Op: "binary", Name: "&&", Args: []*SExpr{a, b}}
	}
	return a
}

func (p *specParser) cmp() *SExpr {
	a := p.add()
	for {
		switch {
		case p.l.kind == "op" && (p.l.tok == "==" || p.l.tok == "!=" || p.l.tok == "<" || p.l.tok == "<=" || p.l.tok == ">" || p.l.tok == ">="):
			op := p.l.tok
			p.l.next()
			b := p.add()
			// chained comparison a <= b < c
			n := &SExpr{Op: "binary", Name: op, Args: []*SExpr{a, b}}
			if p.l.kind == "op" && (p.l.tok == "<" || p.l.tok == "<=" || p.l.tok == ">" || p.l.tok == ">=") {
				op2 := p.l.tok
				p.l.next()
				c := p.add()
				return &SExpr{Op: "binary", Name: "&&", Args: []*SExpr{n, {Op: "binary", Name: op2, Args: []*SExpr{b, c}}}}
			}
			return n
		case p.l.kind == "id" && p.l.tok == "is":
			p.l.next()
			t := p.typeName()
			return &SExpr{Op: "is", Name: t, Args: []*SExpr{a}}
		case p.l.kind == "id" && p.l.tok == "in":
			p.l.next()
			// x in {a, b, c}
			p.expect("{")
			var alts []*SExpr
			for !p.accept("}") {
				alts = append(alts, p.add())
				if !p.accept(",") {
					p.expect("}")
					break
				}
			}
			var out *SExpr
			for _, al := range alts {
				c := &SExpr{Op: "binary", Name: "==", Args: []*SExpr{a, al}}
				if out == nil {
					out = c
				} else {
					out = &SExpr{Op: "binary", Name: "||", Args: []*SExpr{out, c}}
				}
			}
			if out == nil {
				out = &SExpr{Op: "bool", Name: "false"}
			}
			return out
		default:
			return a
		}
	}
}

func (p *specParser) typeName() string {
	var b strings.Builder
	for p.l.kind == "op" && (p.l.tok == "*" || p.l.tok == "[" || p.l.tok == "]") {
		b.WriteString(p.l.tok)
		p.l.next()
	}
	if p.l.kind != "id" {
		p.fail("expected type name")
		return ""
	}
	b.WriteString(p.l.tok)
	p.l.next()
	if p.l.kind == "op" && p.l.tok == "." {
		p.l.next()
		b.WriteString(".")
		b.WriteString(p.l.tok)
		p.l.next()
	}
	return b.String()
}

func (p *specParser) add() *SExpr {
	a := p.mul()
	for p.l.kind == "op" && (p.l.tok == "+" || p.l.tok == "-" || p.l.tok == "|" || p.l.tok == "^" || p.l.tok == "++") {
		op := p.l.tok
		p.l.next()
		b := p.mul()
		a = &SExpr{Op: "binary", Name: op, Args: []*SExpr{a, b}}
	}
	return a
}

func (p *specParser) mul() *SExpr {
	a := p.unary()
	for p.l.kind == "op" && (p.l.tok == "*" || p.l.tok == "/" || p.l.tok == "%" || p.l.tok == "&" || p.l.tok == "<<" || p.l.tok == ">>" || p.l.tok == "&^") {
		op := p.l.tok
		p.l.next()
		b := p.unary()
		a = &SExpr{Op: "binary", Name: op, Args: []*SExpr{a, b}}
	}
	return a
}

func (p *specParser) unary() *SExpr {
	if p.l.kind == "op" && (p.l.tok == "!" || p.l.tok == "-" || p.l.tok == "^") {
		op := p.l.tok
		p.l.next()
		a := p.unary()
		return &SExpr{Op: "unary", Name: op, Args: []*SExpr{a}}
	}
	return p.postfix()
}

func (p *specParser) postfix() *SExpr {
	a := p.primary()
	for p.err == nil {
		switch {
		case p.l.kind == "op" && p.l.tok == ".(":
			p.l.next()
			t := p.typeName()
			p.expect(")")
			a = &SExpr{Op: "cast", Name: t, Args: []*SExpr{a}}
		case p.l.kind == "op" && p.l.tok == ".":
			p.l.next()
			if p.l.kind != "id" {
				p.fail("expected field name")
				return a
			}
			a = &SExpr{Op: "sel", Name: p.l.tok, Args: []*SExpr{a}}
			p.l.next()
		case p.l.kind == "op" && p.l.tok == "[":
			p.l.next()
			var lo, hi *SExpr
			if p.l.tok == ":" && p.l.kind == "op" {
				p.l.next()
				if !(p.l.kind == "op" && p.l.tok == "]") {
					hi = p.expr()
				}
				p.expect("]")
				a = &SExpr{Op: "slice", Args: []*SExpr{a, lo, hi}}
				continue
			}
			lo = p.expr()
			if p.accept(":") {
				if !(p.l.kind == "op" && p.l.tok == "]") {
					hi = p.expr()
				}
				p.expect("]")
				a = &SExpr{Op: "slice", Args: []*SExpr{a, lo, hi}}
				continue
			}
			p.expect("]")
			a = &SExpr{Op: "index", Args: []*SExpr{a, lo}}
		case p.l.kind == "op" && p.l.tok == "(":
			p.l.next()
			var args []*SExpr
			for !(p.l.kind == "op" && p.l.tok == ")") && p.err == nil {
				args = append(args, p.expr())
				if !p.accept(",") {
					break
				}
			}
			p.expect(")")
			a = &SExpr{Op: "call", Args: append([]*SExpr{a}, args...)}
		default:
			return a
		}
	}
	return a
}

func (p *specParser) primary() *SExpr {
	switch p.l.kind {
	case "id":
		n := p.l.tok
		p.l.next()
		switch n {
		case "true", "false":
			return &SExpr{Op: "bool", Name: n}
		case "nil":
			return &SExpr{Op: "nil"}
		}
		return &SExpr{Op: "ident", Name: n}
	case "int":
		n := p.l.tok
		p.l.next()
		return &SExpr{Op: "int", Name: n}
	case "str":
		s := p.l.tok
		p.l.next()
		u, err := strconv.Unquote(s)
		if err != nil {
			p.fail("bad string %s", s)
		}
		return &SExpr{Op: "str", Name: u}
	case "rune":
		s := p.l.tok
		p.l.next()
		u, _, _, err := strconv.UnquoteChar(s[1:len(s)-1], '\'')
		if err != nil {
			p.fail("bad rune %s", s)
		}
		return &SExpr{Op: "int", Name: strconv.Itoa(int(u))}
	case "op":
		if p.accept("(") {
			e := p.expr()
			p.expect(")")
			return e
		}
	}
	p.fail("unexpected %q at %d", p.l.tok, p.l.i)
	return &SExpr{Op: "bool", Name: "true"}
}

// invFields: the fields of a type that its declared invariants mention
// (self.<field>); stores to other fields cannot break them.
func (S *Specs) invFields(key string) map[string]bool {
	if S.invFieldCache == nil {
		S.invFieldCache = map[string]map[string]bool{}
	}
	if m, ok := S.invFieldCache[key]; ok {
		return m
	}
	m := map[string]bool{}
	var walk func(x *SExpr)
	walk = func(x *SExpr) {
		if x == nil {
			return
		}
		if x.Op == "sel" && len(x.Args) == 1 && x.Args[0].Op == "ident" && x.Args[0].Name == "self" {
			m[x.Name] = true
		}
		for _, a := range x.Args {
			walk(a)
		}
	}
	for _, inv := range S.TypeInvs[key] {
		walk(inv.Expr)
	}
	S.invFieldCache[key] = m
	return m
}
