package main

import (
	"fmt"
	"go/ast"
	"go/constant"
	"go/token"
	"go/types"
	"sort"
	"strings"

	"golang.org/x/tools/go/ssa"
)

// LVal is a statically known memory location.
type LVal struct {
	fam     string
	famSort Sort
	kind    int // 0: sel(fam, base)  1: sel(sel(fam, base), idx)  2: global (fam is the value)
	base    Term
	idx     Term
	path    []pathSel
	typ     types.Type // Go type of the location's content
}

type pathSel struct {
	dt *StructDT
	i  int
}

type closureVal struct {
	fn       *ssa.Function
	bindings []ssa.Value
	frame    *Frame
	id       Term
}

type retPoint struct {
	reach   Term
	results []Term
	state   *State
	instr   *ssa.Return
}

type panicPoint struct {
	reach Term
	val   Term
	state *State
	instr ssa.Instruction
}

type blockState struct {
	reach Term
	st    *State
}

// Frame is the symbolic execution of one function instance.
type Frame struct {
	e              *Enc
	fn             *ssa.Function
	pfx            string
	depth          int
	top            bool
	vals           map[ssa.Value]Term
	lvals          map[ssa.Value]*LVal
	tuples         map[ssa.Value][]Term
	closures       map[ssa.Value]*closureVal
	blockOut       map[*ssa.BasicBlock]*blockState
	edgeCond       map[[2]int]Term
	rets           []retPoint
	panics         []panicPoint
	loops          map[*ssa.BasicBlock]*loopInfo
	spec           *FuncSpec
	entry          *State
	params         []Term
	freeVars       []Term
	parent         *Frame // lexically enclosing frame for closures inlined in place
	defers         []*ssa.Defer
	deferSt        []deferRec
	props          []string
	sites          map[string]Term // site flags
	siteLookups    map[string]func(string) (Term, types.Type, bool)
	siteRets       map[string]sval   // result of the call at a site
	siteAfter      map[string]*State // state just after the call at a site returned
	pendingSiteRet string
	siteStates     map[string]*State // state in which a site was reached (single-path sites)
	siteArgs       map[string]sval   // "SITE.i": argument i of the call at the site (merged over the paths that reach it)
	callNo         map[string]int
	headerIn       map[*ssa.BasicBlock]*blockState
	hdrHavoc       map[*ssa.BasicBlock]*State
	caller         *Frame
	recoverNil     bool
	noInv          bool
	undefArbitrary bool // spec names without a value at the evaluation point denote an arbitrary value
	entryPtr       *State
	privStruct     map[ssa.Value]string
	privAlias      map[ssa.Value]string
	idx            map[ssa.Value]bool
	entryVals      map[*ssa.BasicBlock]map[*ssa.Phi]Term
	dirty          map[string]bool // types whose fields this activation has stored to
	published      map[ssa.Value]bool
}

type deferRec struct {
	instr *ssa.Defer
	reach Term // reach at registration
	args  []Term
}

type loopInfo struct {
	header  *ssa.BasicBlock
	body    map[*ssa.BasicBlock]bool
	backs   []*ssa.BasicBlock // preds via back edge
	fams    map[string]Sort
	all     bool
	ordinal int
	privAll bool // a closure is called in the loop: captured private locals may change
}

func (e *Enc) newFrame(fn *ssa.Function, depth int) *Frame {
	f := &Frame{e: e, fn: fn, depth: depth,
		vals: map[ssa.Value]Term{}, lvals: map[ssa.Value]*LVal{}, tuples: map[ssa.Value][]Term{},
		closures: map[ssa.Value]*closureVal{}, blockOut: map[*ssa.BasicBlock]*blockState{},
		edgeCond: map[[2]int]Term{}, sites: map[string]Term{}, callNo: map[string]int{},
		headerIn: map[*ssa.BasicBlock]*blockState{}}
	e.nfresh++
	if depth > 0 {
		f.pfx = fmt.Sprintf("i%d.", e.nfresh)
	}
	return f
}

func (f *Frame) name(v ssa.Value) string {
	n := v.Name()
	return f.pfx + n
}

// ---------- loops ----------

func computeLoops(fn *ssa.Function) (map[*ssa.BasicBlock]*loopInfo, []*ssa.BasicBlock, string) {
	loops := map[*ssa.BasicBlock]*loopInfo{}
	// DFS for back edges and reverse postorder
	state := map[*ssa.BasicBlock]int{}
	var post []*ssa.BasicBlock
	type edge struct{ from, to *ssa.BasicBlock }
	var backs []edge
	var dfs func(b *ssa.BasicBlock)
	dfs = func(b *ssa.BasicBlock) {
		state[b] = 1
		for _, s := range b.Succs {
			switch state[s] {
			case 0:
				dfs(s)
			case 1:
				backs = append(backs, edge{b, s})
			}
		}
		state[b] = 2
		post = append(post, b)
	}
	if len(fn.Blocks) == 0 {
		return loops, nil, ""
	}
	dfs(fn.Blocks[0])
	if fn.Recover != nil && state[fn.Recover] == 0 {
		dfs(fn.Recover)
	}
	var rpo []*ssa.BasicBlock
	for i := len(post) - 1; i >= 0; i-- {
		rpo = append(rpo, post[i])
	}
	for _, be := range backs {
		if !be.to.Dominates(be.from) {
			return nil, nil, fmt.Sprintf("irreducible control flow: back edge %d->%d", be.from.Index, be.to.Index)
		}
		li := loops[be.to]
		if li == nil {
			li = &loopInfo{header: be.to, body: map[*ssa.BasicBlock]bool{be.to: true}}
			loops[be.to] = li
		}
		li.backs = append(li.backs, be.from)
		// natural loop: nodes that reach be.from without passing header
		var stack []*ssa.BasicBlock
		if !li.body[be.from] {
			li.body[be.from] = true
			stack = append(stack, be.from)
		}
		for len(stack) > 0 {
			n := stack[len(stack)-1]
			stack = stack[:len(stack)-1]
			for _, p := range n.Preds {
				if !li.body[p] {
					li.body[p] = true
					stack = append(stack, p)
				}
			}
		}
	}
	// ordinals by header block index
	var hs []*ssa.BasicBlock
	for h := range loops {
		hs = append(hs, h)
	}
	sort.Slice(hs, func(i, j int) bool { return hs[i].Index < hs[j].Index })
	for i, h := range hs {
		loops[h].ordinal = i + 1
	}
	return loops, rpo, ""
}

func isBackEdge(loops map[*ssa.BasicBlock]*loopInfo, from, to *ssa.BasicBlock) bool {
	li := loops[to]
	if li == nil {
		return false
	}
	for _, b := range li.backs {
		if b == from {
			return true
		}
	}
	return false
}

// loopEffects: families written inside the loop body (with callees).
func (f *Frame) loopEffects(li *loopInfo) {
	li.fams = map[string]Sort{}
	tmp := &Effects{Fams: li.fams, Calls: map[string]bool{}}
	callees := map[*ssa.Function][]*ssa.Function{}
	P := f.e.P
	for b := range li.body {
		for _, in := range b.Instrs {
			switch x := in.(type) {
			case *ssa.Store:
				if f.storeToPrivate(x, li.fams) {
					continue
				}
				P.storeEffect(f.e.U, tmp, x.Addr, x.Val.Type())
			case *ssa.MapUpdate:
				mt := x.Map.Type().Underlying().(*types.Map)
				k, v := f.e.U.sortOf(mt.Key(), false), f.e.U.sortOf(mt.Elem(), false)
				li.fams[mapHasFam(k, v)] = arraySort(SInt, arraySort(k, SBool))
				li.fams[mapValFam(k, v)] = arraySort(SInt, arraySort(k, v))
			case *ssa.Next:
				li.fams["Iter.pos"] = arraySort(SInt, SInt)
			case *ssa.Alloc, *ssa.MakeSlice, *ssa.MakeMap:
				// allocation only touches fresh objects, but zero-initialisation writes the families
				f.allocEffects(x.(ssa.Value), li.fams)
			case ssa.CallInstruction:
				P.callEffect(f.e.U, tmp, x, f.fn, callees)
				f.closureWriteEffects(x.Common().Value, li)
			}
		}
	}
	for _, cs := range callees {
		for _, c := range cs {
			ce := P.effectsOf(c, f.e.U)
			if ce.All {
				tmp.All = true
			}
			for k, s := range ce.Fams {
				li.fams[k] = s
			}
		}
	}
	li.all = tmp.All
}

func (f *Frame) allocEffects(v ssa.Value, fams map[string]Sort) {
	U := f.e.U
	switch x := v.(type) {
	case *ssa.Alloc:
		et := x.Type().Underlying().(*types.Pointer).Elem()
		f.typeInitEffects(et, fams)
	case *ssa.MakeSlice:
		s := U.sortOf(x.Type().Underlying().(*types.Slice).Elem(), false)
		fams[memFam(s)] = memSort(s)
	case *ssa.MakeMap:
		mt := x.Type().Underlying().(*types.Map)
		k, vv := U.sortOf(mt.Key(), false), U.sortOf(mt.Elem(), false)
		fams[mapHasFam(k, vv)] = arraySort(SInt, arraySort(k, SBool))
	}
}

func (f *Frame) typeInitEffects(et types.Type, fams map[string]Sort) {
	U := f.e.U
	if op := opaqueStruct(et); op != "" {
		if op == "Builder" {
			fams["Builder"] = arraySort(SInt, SStr)
		}
		return
	}
	switch t := et.Underlying().(type) {
	case *types.Struct:
		for i := 0; i < t.NumFields(); i++ {
			ft := t.Field(i).Type()
			if _, ok := ft.Underlying().(*types.Struct); ok {
				f.typeInitEffects(ft, fams)
				continue
			}
			fams[fieldFamily(et, i)] = arraySort(SInt, U.fieldSort(et, i))
		}
	case *types.Array:
		s := U.sortOf(t.Elem(), false)
		fams[memFam(s)] = memSort(s)
	default:
		s := U.sortOf(et, false)
		fams[cellFam(s)] = arraySort(SInt, s)
	}
}

// ---------- values ----------

func (f *Frame) constTerm(c *ssa.Const) Term {
	e := f.e
	t := c.Type()
	s := e.sortOf(t)
	if c.Value == nil {
		return e.zeroValue(t)
	}
	switch s {
	case SBool:
		return boolLit(constant.BoolVal(c.Value))
	case SStr:
		return e.U.strLit(constant.StringVal(c.Value))
	case SBV:
		if v, ok := constant.Uint64Val(constant.ToInt(c.Value)); ok {
			return bvLit(v)
		}
		if v, ok := constant.Int64Val(constant.ToInt(c.Value)); ok {
			return bvLit(uint64(v))
		}
	case SInt:
		if v, ok := constant.Int64Val(constant.ToInt(c.Value)); ok {
			return intLit(v)
		}
		if v, ok := constant.Uint64Val(constant.ToInt(c.Value)); ok {
			return Term{fmt.Sprintf("%d", v), SInt}
		}
	}
	e.fail("constant %s of type %s", c, t)
	return e.zeroValue(t)
}

func (f *Frame) val(v ssa.Value) Term {
	switch x := v.(type) {
	case *ssa.Const:
		return f.constTerm(x)
	case *ssa.Function:
		name := "fn." + sanitize(funcKey(x))
		f.e.U.declareConst(name, SInt)
		return Term{name, SInt}
	case *ssa.Builtin:
		return intLit(0)
	case *ssa.Global:
		// address of a global: only struct-typed globals are usable as refs
		name := "gaddr." + sanitize(x.Pkg.Pkg.Name()+"."+x.Name())
		f.e.U.declareConst(name, SInt)
		return Term{name, SInt}
	}
	if t, ok := f.vals[v]; ok {
		return t
	}
	if f.parent != nil {
		if t, ok := f.parent.vals[v]; ok {
			return t
		}
	}
	if _, ok := f.lvals[v]; ok {
		f.e.fail("%s: address value %s used as a first-class pointer", f.fn.Name(), v.Name())
		return intLit(0)
	}
	f.e.fail("%s: no value for %s (%T)", f.fn.Name(), v.Name(), v)
	t := f.e.declare(f.name(v)+".undef", f.sortFor(v))
	f.vals[v] = t
	return t
}

func (f *Frame) setVal(v ssa.Value, t Term) Term {
	if t.Sort == "" {
		t.Sort = f.sortFor(v)
	}
	if want := f.sortFor(v); t.Sort != want && (t.Sort == SInt || t.Sort == SBV) && (want == SInt || want == SBV) {
		t = f.coerceSort(t, want, v.Type())
	}
	d := f.e.define(f.name(v), t)
	f.vals[v] = d
	return d
}

// freshFor declares an unconstrained constant for v and adds type facts.
func (f *Frame) freshFor(v ssa.Value, st *State) Term {
	t := f.e.declare(f.name(v), f.sortFor(v))
	f.vals[v] = t
	f.typeFacts(t, v.Type(), st)
	return t
}

// typeFacts assumes the invariants every Go value of a type satisfies.
func (f *Frame) typeFacts(t Term, typ types.Type, st *State) {
	e := f.e
	switch t.Sort {
	case SSlice:
		e.assume(and(le(intLit(0), slLen(t)), le(slLen(t), slCap(t)), le(intLit(0), slOff(t)), le(intLit(0), slBase(t)),
			implies(eq(slBase(t), intLit(0)), eq(slCap(t), intLit(0)))), t.S)
		if st != nil {
			e.assume(le(slBase(t), st.alloc), t.S)
			f.valueInvariant(t, typ, st)
		}
	case SInt:
		if b, ok := typ.Underlying().(*types.Basic); ok && b.Info()&types.IsInteger != 0 {
			bits := intBits(typ)
			if isUnsigned(typ) {
				if bits < 64 {
					e.assume(and(le(intLit(0), t), lt(t, intLit(1<<uint(bits)))), t.S)
				} else {
					e.assume(le(intLit(0), t), t.S)
				}
			} else if bits < 64 {
				e.assume(and(le(intLit(-(1<<uint(bits-1))), t), lt(t, intLit(1<<uint(bits-1)))), t.S)
			}
		} else if _, ok := typ.Underlying().(*types.Pointer); ok && st != nil {
			e.assume(le(t, st.alloc), t.S)
			f.refInvariant(t, typ, st)
		} else if _, ok := typ.Underlying().(*types.Map); ok && st != nil {
			e.assume(and(le(intLit(0), t), le(t, st.alloc)), t.S)
		}
	case SIface:
		e.assume(and(le(intLit(0), ifTag(t)), implies(eq(ifTag(t), intLit(0)), eq(t, nilIface))), t.S)
		if iface, ok := typ.Underlying().(*types.Interface); ok && iface.NumMethods() > 0 {
			e.assume(f.ifaceTagIn(t, iface, true), t.S)
		}
	default:
		if st, ok := typ.Underlying().(*types.Struct); ok && opaqueStruct(typ) == "" {
			d := e.U.structDT(typ)
			for i := 0; i < st.NumFields(); i++ {
				ft := st.Field(i).Type()
				switch d.Sorts[i] {
				case SSlice, SIface:
					f.typeFacts(mk(d.Sorts[i], d.Fields[i], t), ft, nil)
				default:
					if _, ok := ft.Underlying().(*types.Struct); ok {
						f.typeFacts(mk(d.Sorts[i], d.Fields[i], t), ft, nil)
					}
				}
			}
		}
	}
}

// ifaceTagIn: the dynamic type of x is one of the implementers of iface (or nil).
func (f *Frame) ifaceTagIn(x Term, iface *types.Interface, allowNil bool) Term {
	var alts []Term
	if allowNil {
		alts = append(alts, eq(ifTag(x), intLit(0)))
	}
	for _, t := range f.e.P.implementers(iface) {
		alts = append(alts, eq(ifTag(x), intLit(int64(f.e.U.tagOf(t)))))
	}
	// external implementers are possible for library interfaces: allow an "other" tag
	if !f.repoOnlyIface(iface) {
		return tTrue
	}
	return or(alts...)
}

// repoOnlyIface: interfaces with unexported methods of the repo can only be
// implemented inside the repo.
func (f *Frame) repoOnlyIface(iface *types.Interface) bool {
	for i := 0; i < iface.NumMethods(); i++ {
		m := iface.Method(i)
		if !m.Exported() && m.Pkg() != nil && strings.HasPrefix(m.Pkg().Path(), modPath) {
			return true
		}
	}
	return false
}

// ---------- memory ----------

func (f *Frame) loadLV(lv *LVal, st *State) Term {
	e := f.e
	arr := e.family(st, lv.fam, lv.famSort)
	var t Term
	var rootSort Sort
	switch lv.kind {
	case 0:
		rootSort = elemOfArray(lv.famSort)
		t = sel(arr, lv.base, rootSort)
	case 1:
		inner := elemOfArray(lv.famSort)
		rootSort = elemOfArray(inner)
		t = sel(sel(arr, lv.base, inner), lv.idx, rootSort)
	case 2:
		rootSort = lv.famSort
		t = arr
	}
	for _, p := range lv.path {
		t = mk(p.dt.Sorts[p.i], p.dt.Fields[p.i], t)
	}
	return t
}

func elemOfArray(s Sort) Sort {
	// "(Array K V)" -> V
	str := string(s)
	if !strings.HasPrefix(str, "(Array ") {
		return s
	}
	rest := str[7 : len(str)-1]
	// K is either atomic or parenthesised
	depth := 0
	for i := 0; i < len(rest); i++ {
		switch rest[i] {
		case '(':
			depth++
		case ')':
			depth--
		case ' ':
			if depth == 0 {
				return Sort(rest[i+1:])
			}
		}
	}
	return s
}

func (f *Frame) storeLV(lv *LVal, v Term, st *State) {
	e := f.e
	arr := e.family(st, lv.fam, lv.famSort)
	// rebuild along the path
	if len(lv.path) > 0 {
		root := f.loadLV(&LVal{fam: lv.fam, famSort: lv.famSort, kind: lv.kind, base: lv.base, idx: lv.idx}, st)
		v = rebuild(root, lv.path, v)
	}
	switch lv.kind {
	case 0:
		e.setFamily(st, lv.fam, store(arr, lv.base, v))
	case 1:
		inner := elemOfArray(lv.famSort)
		e.setFamily(st, lv.fam, store(arr, lv.base, store(sel(arr, lv.base, inner), lv.idx, v)))
	case 2:
		st.heap[lv.fam] = e.define("h."+lv.fam, v)
	}
}

func rebuild(root Term, path []pathSel, v Term) Term {
	if len(path) == 0 {
		return v
	}
	p := path[0]
	var args []Term
	for i := range p.dt.Fields {
		fld := mk(p.dt.Sorts[i], p.dt.Fields[i], root)
		if i == p.i {
			args = append(args, rebuild(fld, path[1:], v))
		} else {
			args = append(args, fld)
		}
	}
	return mk(Sort(p.dt.Name), p.dt.Ctor, args...)
}

// loadStruct builds the datatype value of the struct at ref.
func (f *Frame) loadStruct(ref Term, t types.Type, st *State) Term {
	e := f.e
	s := t.Underlying().(*types.Struct)
	d := e.U.structDT(t)
	if s.NumFields() == 0 {
		return Term{"(" + d.Ctor + " 0)", Sort(d.Name)}
	}
	var args []Term
	for i := 0; i < s.NumFields(); i++ {
		ft := s.Field(i).Type()
		if op := opaqueStruct(ft); op != "" {
			args = append(args, e.embRef(ref, t, i))
			continue
		}
		if _, ok := ft.Underlying().(*types.Struct); ok {
			args = append(args, f.loadStruct(e.embRef(ref, t, i), ft, st))
			continue
		}
		fs := e.structFieldSort(t, i)
		args = append(args, sel(e.family(st, fieldFamily(t, i), arraySort(SInt, fs)), ref, fs))
	}
	return mk(Sort(d.Name), d.Ctor, args...)
}

func (f *Frame) storeStruct(ref Term, t types.Type, v Term, st *State) {
	e := f.e
	s := t.Underlying().(*types.Struct)
	d := e.U.structDT(t)
	for i := 0; i < s.NumFields(); i++ {
		ft := s.Field(i).Type()
		fv := mk(d.Sorts[i], d.Fields[i], v)
		if opaqueStruct(ft) != "" {
			continue // copying a Builder/Mutex by value is not modelled
		}
		if _, ok := ft.Underlying().(*types.Struct); ok {
			f.storeStruct(e.embRef(ref, t, i), ft, fv, st)
			continue
		}
		fs := e.structFieldSort(t, i)
		fam := fieldFamily(t, i)
		e.setFamily(st, fam, store(e.family(st, fam, arraySort(SInt, fs)), ref, fv))
	}
}

// zeroInit initialises a freshly allocated object of type t at ref.
func (f *Frame) zeroInit(ref Term, t types.Type, st *State) {
	e := f.e
	if op := opaqueStruct(t); op != "" {
		if op == "Builder" {
			e.setFamily(st, "Builder", store(e.family(st, "Builder", arraySort(SInt, SStr)), ref, e.U.strLit("")))
		}
		if op == "Mutex" {
			// the zero value of a mutex is unlocked
			e.famSort["Mutex.locked"] = arraySort(SInt, SBool)
			e.setFamily(st, "Mutex.locked", store(e.family(st, "Mutex.locked", arraySort(SInt, SBool)), ref, tFalse))
		}
		return
	}
	switch x := t.Underlying().(type) {
	case *types.Struct:
		for i := 0; i < x.NumFields(); i++ {
			ft := x.Field(i).Type()
			if _, ok := ft.Underlying().(*types.Struct); ok {
				f.zeroInit(e.embRef(ref, t, i), ft, st)
				continue
			}
			fs := e.structFieldSort(t, i)
			fam := fieldFamily(t, i)
			e.setFamily(st, fam, store(e.family(st, fam, arraySort(SInt, fs)), ref, e.U.zeroOf(ft, fs)))
		}
	case *types.Array:
		s := e.U.sortOf(x.Elem(), false)
		fam := memFam(s)
		z := e.U.zeroOf(x.Elem(), s)
		e.setFamily(st, fam, store(e.family(st, fam, memSort(s)), ref, e.U.constArray(SInt, s, z)))
	default:
		s := e.U.sortOf(t, false)
		fam := cellFam(s)
		e.setFamily(st, fam, store(e.family(st, fam, arraySort(SInt, s)), ref, e.U.zeroOf(t, s)))
	}
}

func (f *Frame) freshRef(hint string, st *State) Term {
	e := f.e
	r := e.declare(hint, SInt)
	e.assume(gt(r, st.alloc), r.S)
	st.alloc = r
	return r
}

// lvalOf resolves a pointer-typed SSA value to a location.
func (f *Frame) lvalOf(v ssa.Value, st *State) *LVal {
	if lv, ok := f.lvals[v]; ok {
		return lv
	}
	if f.parent != nil {
		if lv, ok := f.parent.lvals[v]; ok {
			return lv
		}
	}
	if g, ok := v.(*ssa.Global); ok {
		et := g.Type().Underlying().(*types.Pointer).Elem()
		s := f.e.U.sortOf(et, false)
		return &LVal{fam: "G." + sanitize(g.Pkg.Pkg.Name()+"."+g.Name()), famSort: s, kind: 2, typ: et}
	}
	pt, ok := v.Type().Underlying().(*types.Pointer)
	if !ok {
		f.e.fail("lvalOf non-pointer %s", v.Name())
		return &LVal{fam: cellFam(SInt), famSort: arraySort(SInt, SInt), base: intLit(0), typ: types.Typ[types.Int]}
	}
	et := pt.Elem()
	s := f.e.U.sortOf(et, false)
	return &LVal{fam: cellFam(s), famSort: arraySort(SInt, s), kind: 0, base: f.val(v), typ: et}
}

// ---------- obligations ----------

type cursor struct {
	reach Term
	st    *State
	blk   *ssa.BasicBlock
}

func (f *Frame) obligName(kind string, in ssa.Instruction) (string, string) {
	pos := in.Pos()
	if !pos.IsValid() {
		// use the nearest instruction with a position in the block
		for _, o := range in.Block().Instrs {
			if o.Pos().IsValid() {
				pos = o.Pos()
				if o == in {
					break
				}
			}
		}
	}
	txt := ""
	if syn := f.fn.Syntax(); syn != nil && pos.IsValid() {
		var want func(ast.Node) bool
		switch kind {
		case "bounds":
			want = func(n ast.Node) bool { _, ok := n.(*ast.IndexExpr); return ok }
		case "slice":
			want = func(n ast.Node) bool { _, ok := n.(*ast.SliceExpr); return ok }
		case "assert":
			want = func(n ast.Node) bool { _, ok := n.(*ast.TypeAssertExpr); return ok }
		case "nil":
			want = func(n ast.Node) bool {
				switch n.(type) {
				case *ast.SelectorExpr, *ast.StarExpr, *ast.CallExpr:
					return true
				}
				return false
			}
		case "div", "shift":
			want = func(n ast.Node) bool {
				switch n.(type) {
				case *ast.BinaryExpr, *ast.AssignStmt:
					return true
				}
				return false
			}
		default:
			want = func(n ast.Node) bool {
				switch n.(type) {
				case ast.Expr:
					return true
				}
				return false
			}
		}
		if n := enclosingNode(syn, pos, want); n != nil {
			txt = f.e.P.nodeText(n)
		}
	}
	if txt == "" {
		txt = fmt.Sprintf("b%d", in.Block().Index)
	}
	if len(txt) > 70 {
		txt = txt[:70]
	}
	return txt, f.e.P.position(pos)
}

// guard adds a no-panic obligation and continues under its condition.
func (f *Frame) guard(c *cursor, kind string, in ssa.Instruction, cond Term) {
	if cond.S == "true" {
		return
	}
	txt, pos := f.obligName(kind, in)
	name := txt
	if f.depth > 0 {
		name = txt + "@" + f.fn.Name()
	}
	if f.isFault(kind) {
		f.e.faultPoints = append(f.e.faultPoints, kind+"["+name+"]")
	} else if !f.waivedK1(kind, txt) {
		f.e.addOblig(kind, name, f.k1Props(), pos, c.reach, cond)
	}
	c.reach = f.e.define(f.pfx+"r", and(c.reach, cond))
}

func (f *Frame) k1Props() []string {
	if f.props != nil {
		return f.props
	}
	return nil
}

func (f *Frame) waivedK1(kind, txt string) bool {
	sp := f.e.Spec
	if sp == nil {
		return false
	}
	for _, w := range sp.Waive {
		if w.Kind == kind && (w.Text == "" || strings.Contains(txt, w.Text)) {
			w.Used = true
			return true
		}
	}
	return false
}

// ---------- arithmetic ----------

func (f *Frame) binop(op token.Token, a, b Term, xt, rt types.Type, c *cursor, in ssa.Instruction) Term {
	e := f.e
	switch a.Sort {
	case SBool:
		switch op {
		case token.EQL:
			return eq(a, b)
		case token.NEQ:
			return not(eq(a, b))
		case token.AND, token.LAND:
			return and(a, b)
		case token.OR, token.LOR:
			return or(a, b)
		}
	case SStr:
		switch op {
		case token.EQL:
			return f.strEq(a, b)
		case token.NEQ:
			return not(f.strEq(a, b))
		case token.ADD:
			return f.concat(a, b)
		case token.LSS, token.LEQ, token.GTR, token.GEQ:
			e.U.declareFun("str.lt", []Sort{SStr, SStr}, SBool)
			switch op {
			case token.LSS:
				return app(SBool, "str.lt", a, b)
			case token.GTR:
				return app(SBool, "str.lt", b, a)
			case token.LEQ:
				return not(app(SBool, "str.lt", b, a))
			default:
				return not(app(SBool, "str.lt", a, b))
			}
		}
	case SInt:
		if b.Sort == SBV {
			b = f.bvToInt(b, false)
		}
		switch op {
		case token.ADD:
			return add(a, b)
		case token.SUB:
			return sub(a, b)
		case token.MUL:
			return mk(SInt, "*", a, b)
		case token.QUO:
			f.guard(c, "div", in, not(eq(b, intLit(0))))
			return app(SInt, "go.div", a, b)
		case token.REM:
			f.guard(c, "div", in, not(eq(b, intLit(0))))
			return app(SInt, "go.rem", a, b)
		case token.EQL:
			return eq(a, b)
		case token.NEQ:
			return not(eq(a, b))
		case token.LSS:
			return lt(a, b)
		case token.LEQ:
			return le(a, b)
		case token.GTR:
			return gt(a, b)
		case token.GEQ:
			return ge(a, b)
		case token.SHL, token.SHR:
			if !isUnsigned(in.(*ssa.BinOp).Y.Type()) {
				f.guard(c, "shift", in, ge(b, intLit(0)))
			}
			if n, ok := litInt(b); ok && n >= 0 && n < 62 {
				p := intLit(1 << uint(n))
				if op == token.SHL {
					return mk(SInt, "*", a, p)
				}
				return mk(SInt, "div", a, p)
			}
			fn := "int.shl"
			if op == token.SHR {
				fn = "int.shr"
			}
			e.U.declareFun(fn, []Sort{SInt, SInt}, SInt)
			return app(SInt, fn, a, b)
		case token.AND, token.OR, token.XOR, token.AND_NOT:
			fn := map[token.Token]string{token.AND: "int.and", token.OR: "int.or", token.XOR: "int.xor", token.AND_NOT: "int.andnot"}[op]
			e.U.declareFun(fn, []Sort{SInt, SInt}, SInt)
			return app(SInt, fn, a, b)
		}
	case SBV:
		if b.Sort == SInt && (op == token.SHL || op == token.SHR) {
			if _, isLit := litInt(b); !isLit {
				// shift by a mathematical count: the fault condition is exact, the value is abstract
				if !isUnsigned(in.(*ssa.BinOp).Y.Type()) {
					f.guard(c, "shift", in, ge(b, intLit(0)))
				}
				fn := "bv.shl.int"
				if op == token.SHR {
					fn = "bv.shr.int"
				}
				e.U.declareFun(fn, []Sort{SBV, SInt}, SBV)
				return app(SBV, fn, a, b)
			}
		}
		if b.Sort == SInt {
			b = f.intToBV(b)
		}
		uns := isUnsigned(xt) || isFlagType(xt)
		switch op {
		case token.ADD:
			return mk(SBV, "bvadd", a, b)
		case token.SUB:
			return mk(SBV, "bvsub", a, b)
		case token.MUL:
			return mk(SBV, "bvmul", a, b)
		case token.QUO:
			f.guard(c, "div", in, not(eq(b, bvLit(0))))
			if uns {
				return mk(SBV, "bvudiv", a, b)
			}
			return mk(SBV, "bvsdiv", a, b)
		case token.REM:
			f.guard(c, "div", in, not(eq(b, bvLit(0))))
			if uns {
				return mk(SBV, "bvurem", a, b)
			}
			return mk(SBV, "bvsrem", a, b)
		case token.AND:
			return mk(SBV, "bvand", a, b)
		case token.OR:
			return mk(SBV, "bvor", a, b)
		case token.XOR:
			return mk(SBV, "bvxor", a, b)
		case token.AND_NOT:
			return mk(SBV, "bvand", a, mk(SBV, "bvnot", b))
		case token.SHL, token.SHR:
			yt := in.(*ssa.BinOp).Y.Type()
			if !isUnsigned(yt) && !isFlagType(yt) {
				f.guard(c, "shift", in, mk(SBool, "bvsge", b, bvLit(0)))
			}
			// Go: shift counts >= 64 give 0 (or sign fill); SMT bvshl/bvashr/bvlshr agree
			if op == token.SHL {
				return mk(SBV, "bvshl", a, b)
			}
			if uns {
				return mk(SBV, "bvlshr", a, b)
			}
			return mk(SBV, "bvashr", a, b)
		case token.EQL:
			return eq(a, b)
		case token.NEQ:
			return not(eq(a, b))
		case token.LSS, token.LEQ, token.GTR, token.GEQ:
			m := map[token.Token]string{token.LSS: "lt", token.LEQ: "le", token.GTR: "gt", token.GEQ: "ge"}[op]
			if uns {
				return mk(SBool, "bvu"+m, a, b)
			}
			return mk(SBool, "bvs"+m, a, b)
		}
	case SIface, SSlice:
		switch op {
		case token.EQL:
			return eq(a, b)
		case token.NEQ:
			return not(eq(a, b))
		}
	default:
		switch op {
		case token.EQL:
			return eq(a, b)
		case token.NEQ:
			return not(eq(a, b))
		}
	}
	e.fail("%s: binop %s on %s", f.fn.Name(), op, a.Sort)
	return e.declare("undef", e.sortOf(rt))
}

func litInt(t Term) (int64, bool) {
	var n int64
	if _, err := fmt.Sscanf(t.S, "%d", &n); err == nil && fmt.Sprintf("%d", n) == t.S {
		return n, true
	}
	return 0, false
}

func (f *Frame) intToBV(t Term) Term {
	if n, ok := litInt(t); ok {
		return bvLit(uint64(n))
	}
	if strings.HasPrefix(t.S, "(- ") {
		var n int64
		if _, err := fmt.Sscanf(t.S, "(- %d)", &n); err == nil {
			return bvLit(uint64(-n))
		}
	}
	// (ite c a b) with convertible branches
	if strings.HasPrefix(t.S, "(ite ") {
		if parts := splitSexpr(t.S[5 : len(t.S)-1]); len(parts) == 3 {
			a := f.intToBV(Term{parts[1], SInt})
			b := f.intToBV(Term{parts[2], SInt})
			if !strings.Contains(a.S, "int2bv") && !strings.Contains(b.S, "int2bv") {
				return Term{"(ite " + parts[0] + " " + a.S + " " + b.S + ")", SBV}
			}
		}
	}
	return mk(SBV, "(_ int2bv 64)", t)
}

// splitSexpr splits the top-level items of a space-separated s-expression list.
func splitSexpr(s string) []string {
	var out []string
	depth, start := 0, -1
	for i := 0; i < len(s); i++ {
		c := s[i]
		switch {
		case c == '(':
			if depth == 0 && start < 0 {
				start = i
			}
			depth++
		case c == ')':
			depth--
			if depth == 0 {
				out = append(out, s[start:i+1])
				start = -1
			}
		case c == ' ' || c == '\n':
			if depth == 0 && start >= 0 {
				out = append(out, s[start:i])
				start = -1
			}
		default:
			if depth == 0 && start < 0 {
				start = i
			}
		}
	}
	if start >= 0 {
		out = append(out, s[start:])
	}
	return out
}

func (f *Frame) coerceSort(t Term, want Sort, typ types.Type) Term {
	if t.Sort == want {
		return t
	}
	if want == SBV {
		return f.intToBV(t)
	}
	return f.bvToInt(t, isUnsigned(typ))
}

func bvLitValue(t Term) (uint64, bool) {
	if strings.HasPrefix(t.S, "#x") && len(t.S) == 18 {
		var v uint64
		if _, err := fmt.Sscanf(t.S[2:], "%x", &v); err == nil {
			return v, true
		}
	}
	return 0, false
}

func (f *Frame) bvToInt(t Term, unsigned bool) Term {
	if v, ok := bvLitValue(t); ok {
		if unsigned || v < 1<<63 {
			return Term{fmt.Sprintf("%d", v), SInt}
		}
		return intLit(int64(v))
	}
	nat := mk(SInt, "bv2nat", t)
	if unsigned {
		return nat
	}
	return ite(mk(SBool, "bvslt", t, bvLit(0)), sub(nat, Term{"18446744073709551616", SInt}), nat)
}

// strEq compares strings; comparisons against literals are tied to the
// byte-level theory so that both directions are available to the solver.
func (f *Frame) strEq(a, b Term) Term {
	e := f.e
	lit, other := "", Term{}
	for s, n := range e.U.strLits {
		if n == a.S {
			lit, other = s, b
		} else if n == b.S {
			lit, other = s, a
		}
	}
	t := eq(a, b)
	if other.S != "" && !strings.HasPrefix(other.S, "lit.") {
		conj := []Term{eq(sLen(other), intLit(int64(len(lit))))}
		for i := 0; i < len(lit); i++ {
			conj = append(conj, eq(sByte(other, intLit(int64(i))), intLit(int64(lit[i]))))
		}
		if strings.Contains(other.S, "q.") {
			// under a quantifier: use the byte-level definition directly
			return and(conj...)
		}
		key := "streq:" + a.S + ":" + b.S
		if e.names[key] == 0 {
			e.names[key] = 1
			var syms []string
			symbols(other.S, func(s string) {
				if _, ok := e.decls[s]; ok {
					syms = append(syms, s)
				}
			})
			e.assume(eq(t, and(conj...)), syms...)
		}
	}
	return t
}

func (f *Frame) concat(a, b Term) Term {
	e := f.e
	if a.S == "lit.empty" {
		return b
	}
	if b.S == "lit.empty" {
		return a
	}
	t := e.define("cat", sConcat(a, b))
	if t.S != a.S {
		e.assume(eq(sLen(t), add(sLen(a), sLen(b))), t.S)
		// bytes of a concatenation: the left part, then the right part
		e.assume(Term{fmt.Sprintf("(forall ((i Int)) (! (=> (and (<= 0 i) (< i (slen %s))) (= (sbyte %s i) (sbyte %s i))) :pattern ((sbyte %s i))))", a.S, t.S, a.S, t.S), SBool}, t.S)
		isLit := false
		for s, n := range e.U.strLits {
			if n == b.S && len(s) <= 8 {
				isLit = true
				for k := 0; k < len(s); k++ {
					e.assume(eq(sByte(t, add(sLen(a), intLit(int64(k)))), intLit(int64(s[k]))), t.S)
				}
			}
		}
		if !isLit {
			e.assume(Term{fmt.Sprintf("(forall ((i Int)) (! (=> (and (<= 0 i) (< i (slen %s))) (= (sbyte %s (+ (slen %s) i)) (sbyte %s i))) :pattern ((sbyte %s (+ (slen %s) i)))))", b.S, t.S, a.S, b.S, t.S, a.S), SBool}, t.S)
		}
	}
	return t
}

func (f *Frame) substr(s, lo, hi Term) Term {
	e := f.e
	t := e.define("sub", sSub(s, lo, hi))
	e.assume(implies(and(le(intLit(0), lo), le(lo, hi), le(hi, sLen(s))), eq(sLen(t), sub(hi, lo))), t.S)
	return t
}

// refInvariant assumes the declared type invariant (wf) of the object a
// reference designates, in the state where the reference was obtained.
func (f *Frame) refInvariant(t Term, typ types.Type, st *State) {
	e := f.e
	_, stT, ok := isStructPtr(typ)
	if !ok {
		return
	}
	n, isNamed := stT.(*types.Named)
	if !isNamed || n.Obj().Pkg() == nil {
		return
	}
	key := n.Obj().Pkg().Name() + "." + n.Obj().Name()
	invs := e.P.Specs.TypeInvs[key]
	if len(invs) == 0 || f.noInv {
		return
	}
	// inside a function that stores to fields of this type the invariant may
	// be temporarily broken: it is assumed only in the entry state
	if f.dirty[key] {
		return // this activation has already stored into a field of the type
	}
	dk := "inv:" + t.S + ":" + f.stateSig(st, key)
	if e.names[dk] != 0 {
		return
	}
	e.names[dk] = 1
	f.noInv = true // invariants of objects reached while evaluating an invariant are not unfolded
	defer func() { f.noInv = false }()
	for _, inv := range invs {
		env := &SpecEnv{f: f, names: map[string]Term{"self": t}, types: map[string]types.Type{"self": typ}, cur: st, old: st, pkg: n.Obj().Pkg()}
		b, err := env.evalBool(inv.Expr)
		if err != nil {
			e.specError("wf %s: %q: %v", key, inv.Text, err)
			continue
		}
		e.assume(implies(not(eq(t, intLit(0))), b), t.S)
		e.usedInvs[key] = true
	}
}

// elemNonNil: the element type belongs to a package whose contract declares
// that slices never hold nil pointers/interfaces ("wf elems").
func (f *Frame) elemNonNil(et types.Type) bool {
	var n *types.Named
	switch x := et.(type) {
	case *types.Named:
		n = x
	case *types.Pointer:
		if nn, ok := x.Elem().(*types.Named); ok {
			n = nn
		}
	}
	if n == nil || n.Obj().Pkg() == nil {
		return false
	}
	if !f.e.P.Specs.ElemsNonNil[n.Obj().Pkg().Name()] {
		return false
	}
	switch et.Underlying().(type) {
	case *types.Pointer, *types.Interface, *types.Slice:
		return true
	}
	return false
}

func (f *Frame) entryState() *State {
	return f.entryPtr
}

// stateSig identifies the heap versions an invariant of type key can read.
func (f *Frame) stateSig(st *State, key string) string {
	var b strings.Builder
	fmt.Fprintf(&b, "%d", st.epoch)
	for _, fam := range sortedKeys(st.heap) {
		if strings.HasPrefix(fam, "F.") || strings.HasPrefix(fam, "Mem.") {
			b.WriteString("|" + st.heap[fam].S)
		}
	}
	return b.String()
}

func sortedKeys(m map[string]Term) []string {
	var ks []string
	for k := range m {
		ks = append(ks, k)
	}
	sort.Strings(ks)
	return ks
}

// isMutator: fn stores directly into a field of the named struct type.
func (P *Program) isMutator(fn *ssa.Function, key string) bool {
	if P.mutators == nil {
		P.mutators = map[*ssa.Function]map[string]bool{}
	}
	m, ok := P.mutators[fn]
	if !ok {
		m = map[string]bool{}
		for _, b := range fn.Blocks {
			for _, in := range b.Instrs {
				st, ok := in.(*ssa.Store)
				if !ok {
					continue
				}
				fa, ok := st.Addr.(*ssa.FieldAddr)
				if !ok {
					continue
				}
				if _, isAlloc := fa.X.(*ssa.Alloc); isAlloc {
					continue // initialising a fresh object
				}
				if n, ok := fa.X.Type().Underlying().(*types.Pointer).Elem().(*types.Named); ok && n.Obj().Pkg() != nil {
					m[n.Obj().Pkg().Name()+"."+n.Obj().Name()] = true
				}
			}
		}
		P.mutators[fn] = m
	}
	return m[key]
}

// storeToPrivate records a store into a private local as an effect on its
// own state variable.
func (f *Frame) storeToPrivate(x *ssa.Store, fams map[string]Sort) bool {
	e := f.e
	addr := x.Addr
	fieldName := ""
	var ft types.Type
	if fa, ok := addr.(*ssa.FieldAddr); ok {
		if a, ok := fa.X.(*ssa.Alloc); ok && f.privateAlloc(a) {
			stT := a.Type().Underlying().(*types.Pointer).Elem()
			st := stT.Underlying().(*types.Struct)
			fieldName = sanitize(st.Field(fa.Field).Name())
			ft = stT
			base := "L." + f.pfx + sanitize(f.fn.Name()) + "." + a.Name()
			fams[base+"."+fieldName] = e.structFieldSort(ft, fa.Field)
			return true
		}
		return false
	}
	if a, ok := addr.(*ssa.Alloc); ok && f.privateAlloc(a) {
		et := a.Type().Underlying().(*types.Pointer).Elem()
		base := "L." + f.pfx + sanitize(f.fn.Name()) + "." + a.Name()
		if stt, ok := et.Underlying().(*types.Struct); ok {
			for i := 0; i < stt.NumFields(); i++ {
				fams[base+"."+sanitize(stt.Field(i).Name())] = e.structFieldSort(et, i)
			}
			return true
		}
		fams[base] = e.U.sortOf(et, false)
		return true
	}
	return false
}

func (f *Frame) isFault(kind string) bool {
	sp := f.e.Spec
	if sp == nil {
		return false
	}
	for _, k := range sp.Faults {
		if k == kind {
			return true
		}
	}
	return false
}

// valueInvariant assumes the declared invariant of a named non-struct type
// (e.g. ast.List: len(self) >= 1) on a value of that type.
func (f *Frame) valueInvariant(t Term, typ types.Type, st *State) {
	e := f.e
	n, ok := typ.(*types.Named)
	if !ok || n.Obj().Pkg() == nil || f.noInv {
		return
	}
	key := n.Obj().Pkg().Name() + "." + n.Obj().Name()
	invs := e.P.Specs.TypeInvs[key]
	if len(invs) == 0 {
		return
	}
	f.noInv = true
	defer func() { f.noInv = false }()
	for _, inv := range invs {
		env := &SpecEnv{f: f, names: map[string]Term{"self": t}, types: map[string]types.Type{"self": typ}, cur: st, old: st, pkg: n.Obj().Pkg()}
		b, err := env.evalBool(inv.Expr)
		if err != nil {
			e.specError("wf %s: %q: %v", key, inv.Text, err)
			continue
		}
		e.assume(b, t.S)
		e.usedInvs[key] = true
	}
}

// closureWriteEffects: a closure called in a loop may assign captured
// locals of this frame; those private state variables are loop-modified.
func (f *Frame) closureWriteEffects(v ssa.Value, li *loopInfo) {
	var mc *ssa.MakeClosure
	switch x := v.(type) {
	case *ssa.MakeClosure:
		mc = x
	default:
		// a closure stored in a local: find its MakeClosure through the frame
		for fr := f; fr != nil; fr = fr.parent {
			for val := range fr.closures {
				if val == v {
					mc, _ = val.(*ssa.MakeClosure)
				}
			}
		}
		if mc == nil {
			// called through a func value we cannot resolve statically: it can only
			// assign captured locals of this function if it is one of the closures
			// made here, with the same signature, that writes a captured variable
			sig, ok := v.Type().Underlying().(*types.Signature)
			if !ok {
				return
			}
			if _, isFn := v.(*ssa.Function); isFn {
				return
			}
			if _, isBuiltin := v.(*ssa.Builtin); isBuiltin {
				return
			}
			for _, b := range f.fn.Blocks {
				for _, in := range b.Instrs {
					if m2, ok := in.(*ssa.MakeClosure); ok {
						cf := m2.Fn.(*ssa.Function)
						if types.Identical(cf.Signature, sig) && len(freeVarWrites(cf, map[*ssa.Function]bool{})) > 0 {
							li.privAll = true
						}
					}
				}
			}
			return
		}
	}
	fn := mc.Fn.(*ssa.Function)
	written := freeVarWrites(fn, map[*ssa.Function]bool{})
	for i, b := range mc.Bindings {
		if i >= len(fn.FreeVars) || !written[fn.FreeVars[i]] {
			continue
		}
		a, ok := b.(*ssa.Alloc)
		if !ok || !f.privateAlloc(a) {
			continue
		}
		et := a.Type().Underlying().(*types.Pointer).Elem()
		base := "L." + f.pfx + sanitize(f.fn.Name()) + "." + a.Name()
		if stt, ok := et.Underlying().(*types.Struct); ok {
			for j := 0; j < stt.NumFields(); j++ {
				li.fams[base+"."+sanitize(stt.Field(j).Name())] = f.e.structFieldSort(et, j)
			}
		} else {
			li.fams[base] = f.e.U.sortOf(et, false)
		}
	}
}

func isGlobalFuncValue(v ssa.Value) bool {
	_, ok := v.(*ssa.Function)
	return ok
}

// freeVarWrites: the free variables a closure (or a closure nested in it,
// through the same capture) stores to.
func freeVarWrites(fn *ssa.Function, seen map[*ssa.Function]bool) map[*ssa.FreeVar]bool {
	out := map[*ssa.FreeVar]bool{}
	if seen[fn] {
		return out
	}
	seen[fn] = true
	for _, b := range fn.Blocks {
		for _, in := range b.Instrs {
			switch x := in.(type) {
			case *ssa.Store:
				addr := x.Addr
				if fa, ok := addr.(*ssa.FieldAddr); ok {
					addr = fa.X
				}
				if fv, ok := addr.(*ssa.FreeVar); ok {
					out[fv] = true
				}
			case *ssa.MakeClosure:
				inner := x.Fn.(*ssa.Function)
				w := freeVarWrites(inner, seen)
				for i, bnd := range x.Bindings {
					if fv, ok := bnd.(*ssa.FreeVar); ok && i < len(inner.FreeVars) && w[inner.FreeVars[i]] {
						out[fv] = true
					}
				}
			}
		}
	}
	return out
}

// ---- hybrid integer representation in mode bv64 ----
//
// In a bv64 function, integers that take part in indexing (indices, lengths,
// slice bounds, small character types) stay mathematical Ints; the others -
// the arithmetic values the function computes - are 64-bit vectors.  No
// int2bv bridge is needed as long as the two kinds do not mix.

func (f *Frame) sortFor(v ssa.Value) Sort {
	e := f.e
	t := v.Type()
	if !e.bv || isFlagType(t) {
		return e.sortOf(t)
	}
	b, ok := t.Underlying().(*types.Basic)
	if !ok || b.Info()&types.IsInteger == 0 {
		return e.sortOf(t)
	}
	if intBits(t) < 64 || f.idxLike()[v] {
		return SInt
	}
	return SBV
}

func isIntType(t types.Type) bool {
	b, ok := t.Underlying().(*types.Basic)
	return ok && b.Info()&types.IsInteger != 0 && !isFlagType(t)
}

func (f *Frame) idxLike() map[ssa.Value]bool {
	if f.idx != nil {
		return f.idx
	}
	m := map[ssa.Value]bool{}
	f.idx = m
	mark := func(v ssa.Value) bool {
		if v == nil || !isIntType(v.Type()) {
			return false
		}
		if _, isC := v.(*ssa.Const); isC {
			return false
		}
		if !m[v] {
			m[v] = true
			return true
		}
		return false
	}
	locInt := func(addr ssa.Value) bool {
		switch a := addr.(type) {
		case *ssa.FieldAddr:
			st := a.X.Type().Underlying().(*types.Pointer).Elem()
			return f.e.structFieldSort(st, a.Field) == SInt
		case *ssa.IndexAddr:
			return true
		case *ssa.Alloc, *ssa.FreeVar, *ssa.Global:
			return true
		}
		return true
	}
	for changed := true; changed; {
		changed = false
		for _, b := range f.fn.Blocks {
			for _, in := range b.Instrs {
				switch x := in.(type) {
				case *ssa.IndexAddr:
					changed = mark(x.Index) || changed
				case *ssa.Index:
					changed = mark(x.Index) || changed
				case *ssa.Lookup:
					if _, isMap := x.X.Type().Underlying().(*types.Map); !isMap {
						changed = mark(x.Index) || changed
					}
				case *ssa.Slice:
					changed = mark(x.Low) || changed
					changed = mark(x.High) || changed
					changed = mark(x.Max) || changed
				case *ssa.MakeSlice:
					changed = mark(x.Len) || changed
					changed = mark(x.Cap) || changed
				case *ssa.Call:
					if bi, ok := x.Call.Value.(*ssa.Builtin); ok && (bi.Name() == "len" || bi.Name() == "cap" || bi.Name() == "copy") {
						changed = mark(x) || changed
					}
				case *ssa.Extract:
					if nx, ok := x.Tuple.(*ssa.Next); ok && x.Index == 1 {
						_ = nx
						changed = mark(x) || changed
					}
				case *ssa.UnOp:
					if x.Op == token.MUL && isIntType(x.Type()) && locInt(x.X) {
						changed = mark(x) || changed
					} else if x.Op == token.SUB || x.Op == token.XOR {
						if m[x] || m[x.X] {
							changed = mark(x) || changed
							changed = mark(x.X) || changed
						}
					}
				case *ssa.Store:
					if isIntType(x.Val.Type()) && locInt(x.Addr) {
						changed = mark(x.Val) || changed
					}
				case *ssa.BinOp:
					switch x.Op {
					case token.ADD, token.SUB, token.MUL, token.QUO, token.REM:
						if m[x] || m[x.X] || m[x.Y] {
							changed = mark(x) || changed
							changed = mark(x.X) || changed
							changed = mark(x.Y) || changed
						}
					case token.EQL, token.NEQ, token.LSS, token.LEQ, token.GTR, token.GEQ:
						if m[x.X] || m[x.Y] {
							changed = mark(x.X) || changed
							changed = mark(x.Y) || changed
						}
					}
				case *ssa.Phi:
					any := m[x]
					for _, ed := range x.Edges {
						any = any || m[ed]
					}
					if any {
						changed = mark(x) || changed
						for _, ed := range x.Edges {
							changed = mark(ed) || changed
						}
					}
				case *ssa.Convert:
					if isIntType(x.Type()) && isIntType(x.X.Type()) && (m[x] || m[x.X] || intBits(x.X.Type()) < 64 || intBits(x.Type()) < 64) {
						changed = mark(x) || changed
						changed = mark(x.X) || changed
					}
				}
			}
		}
	}
	return m
}
