package main

import (
	"fmt"
	"go/token"
	"go/types"
	"sort"
	"strconv"
	"strings"

	"golang.org/x/tools/go/ssa"
)

// run symbolically executes the frame's function from state st with the
// given reach condition; results are left in f.rets / f.panics.
func (f *Frame) run(reach Term, st *State) {
	e := f.e
	fn := f.fn
	if len(fn.Blocks) == 0 {
		e.fail("%s has no body", fn.Name())
		return
	}
	loops, rpo, bad := computeLoops(fn)
	if bad != "" {
		e.fail("%s: %s", fn.Name(), bad)
		return
	}
	f.loops = loops
	for _, li := range loops {
		f.loopEffects(li)
	}
	f.entry = st.clone()
	for _, b := range rpo {
		if b == fn.Recover {
			continue // the recover block is only entered after a recovered panic
		}
		var c *cursor
		if b == fn.Blocks[0] {
			c = &cursor{reach: reach, st: st.clone(), blk: b}
		} else {
			c = f.enterBlock(b)
			if c == nil {
				continue
			}
		}
		f.execBlock(c, b)
	}
}

// enterBlock merges the forward predecessors of b, and for loop headers
// checks/assumes the invariant.
func (f *Frame) enterBlock(b *ssa.BasicBlock) *cursor {
	e := f.e
	var conds []Term
	var sts []*State
	var preds []*ssa.BasicBlock
	for _, p := range b.Preds {
		if isBackEdge(f.loops, p, b) {
			continue
		}
		out := f.blockOut[p]
		if out == nil {
			continue
		}
		ec, ok := f.edgeCond[[2]int{p.Index, b.Index}]
		if !ok {
			continue
		}
		conds = append(conds, ec)
		sts = append(sts, out.st)
		preds = append(preds, p)
	}
	if len(conds) == 0 {
		return nil // unreachable
	}
	reach := e.define(fmt.Sprintf("%sr.b%d", f.pfx, b.Index), or(conds...))
	st := e.mergeStates(conds, sts)
	c := &cursor{reach: reach, st: st, blk: b}
	li := f.loops[b]
	// phis
	phiVal := func(phi *ssa.Phi, fromPreds []*ssa.BasicBlock, fromConds []Term) Term {
		var t Term
		for i := len(fromPreds) - 1; i >= 0; i-- {
			var v Term
			for j, p := range b.Preds {
				if p == fromPreds[i] {
					v = f.val(phi.Edges[j])
					break
				}
			}
			if want := f.sortFor(phi); v.Sort != want && (v.Sort == SInt || v.Sort == SBV) && (want == SInt || want == SBV) {
				v = f.coerceSort(v, want, phi.Type())
			}
			if t.S == "" {
				t = v
			} else {
				t = ite(fromConds[i], v, t)
			}
		}
		return t
	}
	if li == nil {
		for _, in := range b.Instrs {
			phi, ok := in.(*ssa.Phi)
			if !ok {
				break
			}
			if _, isPtr := phi.Type().Underlying().(*types.Pointer); isPtr {
				if _, _, sp := isStructPtr(phi.Type()); !sp {
					// pointer phi: all edges must be the same static location
					var lv *LVal
					same := true
					for j, p := range b.Preds {
						_ = p
						l2, ok := f.lvals[phi.Edges[j]]
						if !ok {
							same = false
							break
						}
						if lv == nil {
							lv = l2
						} else if lv.fam != l2.fam || lv.base.S != l2.base.S || lv.idx.S != l2.idx.S {
							same = false
						}
					}
					if same && lv != nil {
						f.lvals[phi] = lv
						continue
					}
				}
			}
			f.setVal(phi, phiVal(phi, preds, conds))
		}
		return c
	}
	// ---- loop header ----
	f.headerIn[b] = &blockState{reach: reach, st: st.clone()}
	// 1. invariant on entry (with phi := entry values)
	entryEnv := map[*ssa.Phi]Term{}
	var phis []*ssa.Phi
	for _, in := range b.Instrs {
		phi, ok := in.(*ssa.Phi)
		if !ok {
			break
		}
		phis = append(phis, phi)
		entryEnv[phi] = phiVal(phi, preds, conds)
	}
	if f.entryVals == nil {
		f.entryVals = map[*ssa.BasicBlock]map[*ssa.Phi]Term{}
	}
	f.entryVals[b] = entryEnv
	invs := f.loopInvariants(li)
	for _, inv := range invs {
		t := f.evalInvariant(inv, li, entryEnv, st, nil)
		if t.S != "" {
			if o := e.addOblig("inv-entry", inv.Name, f.invProps(inv), f.e.P.position(b.Instrs[0].Pos()), reach, t); o != nil && inv.Gen != nil {
				o.auto = inv
			}
		}
	}
	owned := f.loopOwned(li)
	for _, a := range owned {
		if f.published == nil {
			f.published = map[ssa.Value]bool{}
		}
		f.published[a] = true
		f.checkOwnInv(st, reach, a, b.Instrs[0], "holds on loop entry for the object the loop hands on")
	}
	// 2. havoc
	hst := st.clone()
	if li.privAll {
		pfx := "L." + f.pfx + sanitize(f.fn.Name()) + "."
		for fam, srt := range e.famSort {
			if strings.HasPrefix(fam, pfx) {
				li.fams[fam] = srt
			}
		}
	}
	e.havoc(hst, li.fams, li.all)
	for _, phi := range phis {
		// a header phi that the loop never changes (every back edge carries the phi
		// itself) keeps its entry value
		invariantPhi := true
		for j, p := range b.Preds {
			if isBackEdge(f.loops, p, b) && phi.Edges[j] != phi {
				invariantPhi = false
			}
		}
		if invariantPhi && entryEnv[phi].S != "" {
			f.setVal(phi, entryEnv[phi])
			continue
		}
		f.freshFor(phi, hst)
	}
	c.st = hst
	// 3. assume invariants
	li2 := li
	for _, inv := range invs {
		t := f.evalInvariant(inv, li2, nil, hst, nil)
		if t.S != "" {
			c.reach = and(c.reach, t)
		}
	}
	for _, a := range owned {
		_, _, ts := f.ownInvTerms(hst, a)
		for _, t := range ts {
			c.reach = and(c.reach, t)
		}
	}
	// built-in facts: values defined before the loop are unchanged (they are SSA), allocation grows
	c.reach = e.define(fmt.Sprintf("%sr.h%d", f.pfx, b.Index), c.reach)
	return c
}

// closeBackEdge is called when a block ends with a back edge to header h.
func (f *Frame) closeBackEdge(c *cursor, from, h *ssa.BasicBlock, cond Term) {
	e := f.e
	li := f.loops[h]
	reach := and(c.reach, cond)
	env := map[*ssa.Phi]Term{}
	for _, in := range h.Instrs {
		phi, ok := in.(*ssa.Phi)
		if !ok {
			break
		}
		for j, p := range h.Preds {
			if p == from {
				v := f.val(phi.Edges[j])
				if want := f.sortFor(phi); v.Sort != want && (v.Sort == SInt || v.Sort == SBV) && (want == SInt || want == SBV) {
					v = f.coerceSort(v, want, phi.Type())
				}
				env[phi] = v
			}
		}
	}
	for _, inv := range f.loopInvariants(li) {
		t := f.evalInvariant(inv, li, env, c.st, nil)
		if t.S != "" {
			if o := e.addOblig("inv-step", inv.Name, f.invProps(inv), e.P.position(h.Instrs[0].Pos()), reach, t); o != nil && inv.Gen != nil {
				o.auto = inv
			}
		}
	}
	for _, a := range f.loopOwned(li) {
		// only this activation's own stores can have broken it: callees
		// re-establish the invariant of every object they store into (K7)
		if n, ok := a.Type().(*types.Pointer).Elem().(*types.Named); ok && f.dirty[n.Obj().Pkg().Name()+"."+n.Obj().Name()] {
			f.checkOwnInv(c.st, reach, a, h.Instrs[0], "holds again at the loop's back edge")
		}
	}
	if ls := f.loopSpec(li); ls != nil && len(ls.Steps) != 0 {
		idx := len(from.Instrs) - 1
		for _, cl := range ls.Steps {
			env := &SpecEnv{f: f, names: map[string]Term{}, types: map[string]types.Type{}, cur: c.st, old: f.entry}
			env.lookup = f.resolverAtPoint(from, idx, nil, c.st)
			t, err := env.evalBool(cl.Expr)
			if err != nil {
				e.specError("%s: loop step %s: %v", e.Key, cl.Name, err)
				continue
			}
			props := cl.Props
			if props == nil {
				props = f.invProps(cl)
			}
			e.addOblig("step", cl.Name, props, e.P.position(from.Instrs[idx].Pos()), reach, t)
		}
	}
	for _, dec := range f.loopVariants(li) {
		// variant at header (havocked state) vs at back edge
		hin := f.headerState(h)
		v0 := f.evalInvariant(dec, li, nil, hin, nil)
		v1 := f.evalInvariant(dec, li, env, c.st, nil)
		if v0.S != "" && v1.S != "" {
			goal := and(lt(v1, v0), le(intLit(0), v0))
			if dec.Guard != nil {
				g := f.evalInvariant(dec.Guard, li, nil, hin, nil)
				if g.S == "" {
					continue
				}
				goal = implies(g, goal)
			}
			e.addOblig("decreases", dec.Name, dec.Props, e.P.position(h.Instrs[0].Pos()), reach, goal)
		}
	}
}

func (f *Frame) headerState(h *ssa.BasicBlock) *State {
	if s, ok := f.hdrHavoc[h]; ok {
		return s
	}
	return f.headerIn[h].st
}

func (f *Frame) execBlock(c *cursor, b *ssa.BasicBlock) {
	if li := f.loops[b]; li != nil {
		if f.hdrHavoc == nil {
			f.hdrHavoc = map[*ssa.BasicBlock]*State{}
		}
		f.hdrHavoc[b] = c.st.clone()
	}
	firstReal := true
	for idx, in := range b.Instrs {
		if f.e.unsupported != "" {
			return
		}
		if _, ok := in.(*ssa.Phi); ok {
			continue
		}
		if f.top {
			if _, isDbg := in.(*ssa.DebugRef); !isDbg {
				f.checkAnchors(c, b, idx, in, firstReal)
				firstReal = false
			}
		}
		done := f.exec(c, in)
		if f.top && f.pendingSiteRet != "" {
			// siteret(NAME): what the call at the site returned
			if v, ok := in.(ssa.Value); ok {
				var sv sval
				if t, ok := f.vals[v]; ok {
					sv = sval{t, v.Type()}
				} else if tup, ok := f.tuples[v]; ok && len(tup) > 0 {
					// several results: the first one
					if tt, ok := v.Type().(*types.Tuple); ok && tt.Len() > 0 {
						sv = sval{tup[0], tt.At(0).Type()}
					}
				}
				if sv.t.S != "" {
					if f.siteRets == nil {
						f.siteRets = map[string]sval{}
					}
					for _, name := range strings.Fields(f.pendingSiteRet) {
						nv := sv
						// a site anchored at several calls: the result of the one reached on this path
						if old, ok := f.siteRets[name]; ok && old.t.Sort == sv.t.Sort && old.t.S != sv.t.S {
							nv = sval{f.e.define("siteret."+name, ite(c.reach, sv.t, old.t)), sv.typ}
						}
						f.siteRets[name] = nv
					}
				}
				if f.siteAfter == nil {
					f.siteAfter = map[string]*State{}
				}
				for _, name := range strings.Fields(f.pendingSiteRet) {
					f.siteAfter[name] = c.st.clone()
				}
			}
			f.pendingSiteRet = ""
		}
		if done {
			break
		}
	}
	f.blockOut[b] = &blockState{reach: c.reach, st: c.st}
}

func (f *Frame) edge(c *cursor, from, to *ssa.BasicBlock, cond Term) {
	if isBackEdge(f.loops, from, to) {
		f.closeBackEdge(c, from, to, cond)
		return
	}
	f.edgeCond[[2]int{from.Index, to.Index}] = f.e.define(fmt.Sprintf("%se.%d.%d", f.pfx, from.Index, to.Index), and(c.reach, cond))
}

// exec runs one instruction; returns true when the block is finished.
func (f *Frame) exec(c *cursor, in ssa.Instruction) bool {
	e := f.e
	st := c.st
	switch x := in.(type) {
	case *ssa.DebugRef:
		return false
	case *ssa.Jump:
		f.edge(c, x.Block(), x.Block().Succs[0], tTrue)
		return true
	case *ssa.If:
		cond := f.val(x.Cond)
		b := x.Block()
		f.edge(c, b, b.Succs[0], cond)
		f.edge(c, b, b.Succs[1], not(cond))
		return true
	case *ssa.Return:
		var rs []Term
		for _, r := range x.Results {
			f.publish(c, r, x)
			rs = append(rs, f.val(r))
		}
		f.rets = append(f.rets, retPoint{c.reach, rs, c.st.clone(), x})
		return true
	case *ssa.Panic:
		f.panics = append(f.panics, panicPoint{c.reach, f.val(x.X), c.st.clone(), x})
		return true
	case *ssa.RunDefers:
		f.runDefers(c)
		return false
	case *ssa.Defer:
		var args []Term
		for _, a := range x.Call.Args {
			if _, isLv := f.lvals[a]; isLv {
				args = append(args, Term{})
				continue
			}
			args = append(args, f.val(a))
		}
		f.deferSt = append(f.deferSt, deferRec{x, c.reach, args})
		return false
	case *ssa.Go:
		for _, a := range x.Call.Args {
			f.publish(c, a, x)
		}
		f.goroutineOwnObject(c, x)
		return false
	case *ssa.Send:
		return false
	case *ssa.Store:
		f.execStore(c, x)
		return false
	case *ssa.MapUpdate:
		f.execMapUpdate(c, x)
		return false
	case *ssa.Alloc:
		et := x.Type().Underlying().(*types.Pointer).Elem()
		if f.privateAlloc(x) {
			// a local whose address never escapes: its own state variable(s), untouched by calls
			base := "L." + f.pfx + sanitize(f.fn.Name()) + "." + x.Name()
			if stt, ok := et.Underlying().(*types.Struct); ok {
				if f.privStruct == nil {
					f.privStruct = map[ssa.Value]string{}
				}
				f.privStruct[x] = base
				for i := 0; i < stt.NumFields(); i++ {
					fs := e.structFieldSort(et, i)
					fam := base + "." + sanitize(stt.Field(i).Name())
					e.famSort[fam] = fs
					st.heap[fam] = e.U.zeroOf(stt.Field(i).Type(), fs)
				}
				f.vals[x] = intLit(-7) // never dereferenced as a heap reference
				return false
			}
			s := e.U.sortOf(et, false)
			e.famSort[base] = s
			st.heap[base] = e.U.zeroOf(et, s)
			f.lvals[x] = &LVal{fam: base, famSort: s, kind: 2, typ: et}
			return false
		}
		r := f.freshRef(f.name(x), st)
		f.vals[x] = r
		f.zeroInit(r, et, st)
		return false
	case *ssa.BinOp:
		a, b := f.val(x.X), f.val(x.Y)
		f.setVal(x, f.binop(x.Op, a, b, x.X.Type(), x.Type(), c, x))
		return false
	case *ssa.UnOp:
		f.execUnOp(c, x)
		return false
	case *ssa.Phi:
		return false
	case *ssa.Call:
		for _, a := range x.Call.Args {
			f.publish(c, a, x)
		}
		f.execCall(c, x)
		return false
	case *ssa.ChangeInterface:
		f.setVal(x, f.val(x.X))
		return false
	case *ssa.ChangeType:
		f.setVal(x, f.coerce(f.val(x.X), x.X.Type(), x.Type()))
		return false
	case *ssa.Convert:
		f.execConvert(c, x)
		return false
	case *ssa.MakeInterface:
		f.publish(c, x.X, x)
		f.setVal(x, f.makeIface(f.val(x.X), x.X.Type()))
		return false
	case *ssa.MakeClosure:
		fn := x.Fn.(*ssa.Function)
		// a bound method value (l.lexIf) will be called by whoever receives it: its
		// precondition is checked here, where it is made (action protocol of the lexers)
		if tgt := boundMethodTarget(fn); tgt != nil && len(x.Bindings) == 1 {
			if sp := e.P.specFor(tgt); sp != nil && len(sp.Requires) > 0 && len(tgt.Params) >= 1 {
				env := &SpecEnv{f: f, names: map[string]Term{tgt.Params[0].Name(): f.val(x.Bindings[0])}, types: map[string]types.Type{tgt.Params[0].Name(): tgt.Params[0].Type()}, cur: st, old: st}
				if tgt.Pkg != nil {
					env.pkg = tgt.Pkg.Pkg
				}
				for _, r := range sp.Requires {
					if len(tgt.Params) > 1 && mentionsParams(r.Expr, tgt.Params[1:]) {
						continue // depends on arguments supplied at the call
					}
					t, err := env.evalBool(r.Expr)
					if err != nil {
						e.specError("requires of %s: %v", funcKey(tgt), err)
						continue
					}
					_, pos := f.obligName("call", x)
					e.addOblig("requires", fmt.Sprintf("%s (as a method value): %s", funcKey(tgt), r.Text), unionProps(r.Props, f.props), pos, c.reach, t)
				}
			}
		}
		cv := &closureVal{fn: fn, bindings: x.Bindings, frame: f}
		f.closures[x] = cv
		// closure values are distinct positive identities, so that a func value
		// flowing through results and phis can be dispatched back to its code
		e.nclosures++
		id := e.declare(f.name(x)+".clo", SInt)
		e.assume(eq(id, intLit(int64(1000000+e.nclosures))), id.S)
		cv.id = id
		e.closureIDs = append(e.closureIDs, cv)
		f.vals[x] = id
		return false
	case *ssa.MakeMap:
		r := f.freshRef(f.name(x), st)
		f.vals[x] = r
		mt := x.Type().Underlying().(*types.Map)
		k, v := e.U.sortOf(mt.Key(), false), e.U.sortOf(mt.Elem(), false)
		fam := mapHasFam(k, v)
		srt := arraySort(SInt, arraySort(k, SBool))
		e.setFamily(st, fam, store(e.family(st, fam, srt), r, e.U.constArray(k, SBool, tFalse)))
		return false
	case *ssa.MakeChan:
		r := f.freshRef(f.name(x), st)
		f.vals[x] = r
		// ghost: a new channel is open
		e.famSort["Chan.closed"] = arraySort(SInt, SBool)
		e.setFamily(st, "Chan.closed", store(e.family(st, "Chan.closed", arraySort(SInt, SBool)), r, tFalse))
		// ghost: its capacity (never changes; chancap(ch) in contracts)
		e.famSort["Chan.cap"] = arraySort(SInt, SInt)
		e.assume(eq(sel(e.family(f.entry, "Chan.cap", arraySort(SInt, SInt)), r, SInt), f.asInt(f.val(x.Size))))
		return false
	case *ssa.MakeSlice:
		ln, cp := f.asInt(f.val(x.Len)), f.asInt(f.val(x.Cap))
		f.guard(c, "make", x, and(le(intLit(0), ln), le(ln, cp)))
		r := f.freshRef(f.name(x)+".base", st)
		et := x.Type().Underlying().(*types.Slice).Elem()
		s := e.U.sortOf(et, false)
		fam := memFam(s)
		z := e.U.zeroOf(et, s)
		e.setFamily(st, fam, store(e.family(st, fam, memSort(s)), r, e.U.constArray(SInt, s, z)))
		f.setVal(x, mkSlice(r, intLit(0), ln, cp))
		return false
	case *ssa.FieldAddr:
		f.execFieldAddr(c, x)
		return false
	case *ssa.Field:
		sv := f.val(x.X)
		d := e.U.structDT(x.X.Type())
		f.setVal(x, mk(d.Sorts[x.Field], d.Fields[x.Field], sv))
		return false
	case *ssa.IndexAddr:
		f.execIndexAddr(c, x)
		return false
	case *ssa.Index:
		// index of an array or string value
		if x.X.Type().Underlying() == types.Typ[types.String] || e.sortOf(x.X.Type()) == SStr {
			s, i := f.val(x.X), f.asInt(f.val(x.Index))
			f.guard(c, "bounds", x, and(le(intLit(0), i), lt(i, sLen(s))))
			f.setVal(x, f.fromInt(sByte(s, i), x.Type()))
			return false
		}
		if at, ok := x.X.Type().Underlying().(*types.Array); ok {
			arr, i := f.val(x.X), f.asInt(f.val(x.Index))
			f.guard(c, "bounds", x, and(le(intLit(0), i), lt(i, intLit(at.Len()))))
			d := f.setVal(x, sel(arr, i, e.U.sortOf(at.Elem(), false)))
			f.typeFacts(d, x.Type(), st)
			return false
		}
		e.fail("%s: Index on %s", f.fn.Name(), x.X.Type())
		return false
	case *ssa.Lookup:
		f.execLookup(c, x)
		return false
	case *ssa.Slice:
		f.execSlice(c, x)
		return false
	case *ssa.Select:
		// channels are abstracted: any ready case, havocked values
		n := len(x.States)
		idx := e.declare(f.name(x)+".idx", SInt)
		lo := int64(0)
		if !x.Blocking {
			lo = -1
		}
		e.assume(and(le(intLit(lo), idx), lt(idx, intLit(int64(n)))), idx.S)
		// ghost Chan.closed: a receive from a closed channel is always ready (so
		// the default case is not taken); a channel that the program never sends
		// on (a pure signal) is ready to receive only when it is closed
		for i, sc := range x.States {
			if sc.Dir != types.RecvOnly {
				continue
			}
			if chv, ok := f.vals[sc.Chan]; ok {
				closed := sel(e.family(st, "Chan.closed", arraySort(SInt, SBool)), chv, SBool)
				e.famSort["Chan.closed"] = arraySort(SInt, SBool)
				if !x.Blocking {
					e.assume(implies(closed, ge(idx, intLit(0))), idx.S)
				}
				if e.P.signalOnlyChan(sc.Chan) {
					e.assume(implies(eq(idx, intLit(int64(i))), closed), idx.S)
				}
			}
		}
		tup := []Term{f.coerceInt(idx, x.Type().(*types.Tuple).At(0).Type()), e.declare(f.name(x)+".ok", SBool)}
		tt := x.Type().(*types.Tuple)
		for i := 2; i < tt.Len(); i++ {
			v := e.declare(f.name(x)+".rv", e.sortOf(tt.At(i).Type()))
			f.typeFacts(v, tt.At(i).Type(), st)
			tup = append(tup, v)
		}
		f.tuples[x] = tup
		return false
	case *ssa.Range:
		f.execRange(c, x)
		return false
	case *ssa.Next:
		f.execNext(c, x)
		return false
	case *ssa.TypeAssert:
		f.execTypeAssert(c, x)
		return false
	case *ssa.Extract:
		tup, ok := f.tuples[x.Tuple]
		if !ok || x.Index >= len(tup) {
			e.fail("%s: extract from unknown tuple %s", f.fn.Name(), x.Tuple.Name())
			f.freshFor(x, st)
			return false
		}
		tv := tup[x.Index]
		if want := f.sortFor(x); tv.Sort != want && (tv.Sort == SInt || tv.Sort == SBV) && (want == SInt || want == SBV) {
			tv = f.coerceSort(tv, want, x.Type())
		}
		f.vals[x] = tv
		return false
	case *ssa.SliceToArrayPointer, *ssa.MultiConvert:
		e.fail("%s: unsupported instruction %T", f.fn.Name(), in)
		return false
	}
	e.fail("%s: unsupported instruction %T", f.fn.Name(), in)
	return false
}

func (f *Frame) asInt(t Term) Term {
	if t.Sort == SBV {
		return f.bvToInt(t, false)
	}
	return t
}

func (f *Frame) fromInt(t Term, typ types.Type) Term {
	if isFlagType(typ) && t.Sort == SInt {
		return f.intToBV(t)
	}
	return t // the consumer coerces (setVal / bindResults) according to the value's role
}

func (f *Frame) coerceInt(t Term, typ types.Type) Term { return f.fromInt(t, typ) }

// coerce adapts a value to the representation of another type of the same
// underlying kind.
func (f *Frame) coerce(t Term, from, to types.Type) Term {
	ts := f.e.sortOf(to)
	if t.Sort == ts {
		return t
	}
	if t.Sort == SInt && ts == SBV {
		return f.intToBV(t)
	}
	if t.Sort == SBV && ts == SInt {
		return f.bvToInt(t, isUnsigned(from) || isFlagType(from))
	}
	f.e.fail("%s: cannot coerce %s to %s", f.fn.Name(), t.Sort, ts)
	return t
}

func (f *Frame) makeIface(v Term, t types.Type) Term {
	e := f.e
	if isInterface(t) {
		return v
	}
	box, _ := e.U.box(v.Sort)
	return mk(SIface, "mkiface", intLit(int64(e.U.tagOf(t))), app(SAny, box, v))
}

func (f *Frame) unbox(x Term, t types.Type) Term {
	s := f.e.sortOf(t)
	_, unbox := f.e.U.box(s)
	return app(s, unbox, ifVal(x))
}

func (f *Frame) execStore(c *cursor, x *ssa.Store) {
	e := f.e
	st := c.st
	vt := x.Val.Type()
	f.publish(c, x.Val, x)
	if base, ok := f.privBase(x.Addr); ok {
		stt := vt.Underlying().(*types.Struct)
		d := e.U.structDT(vt)
		v := f.val(x.Val)
		for i := 0; i < stt.NumFields(); i++ {
			st.heap[base+"."+sanitize(stt.Field(i).Name())] = e.define("l", mk(d.Sorts[i], d.Fields[i], v))
		}
		return
	}
	// struct value stored through a struct pointer: explode
	if _, ok := vt.Underlying().(*types.Struct); ok && opaqueStruct(vt) == "" {
		if _, isLv := f.lvals[x.Addr]; !isLv {
			if _, isG := x.Addr.(*ssa.Global); !isG {
				ref := f.val(x.Addr)
				f.guard(c, "nil", x, not(eq(ref, intLit(0))))
				f.storeStruct(ref, vt, f.val(x.Val), st)
				return
			}
		}
	}
	if opaqueStruct(vt) != "" {
		e.warn("%s: copy of opaque %s ignored", f.fn.Name(), typeName(vt))
		return
	}
	if at, ok := vt.Underlying().(*types.Array); ok {
		if _, isLv := f.lvals[x.Addr]; !isLv {
			es := e.U.sortOf(at.Elem(), false)
			fam := memFam(es)
			e.setFamily(st, fam, store(e.family(st, fam, memSort(es)), f.val(x.Addr), f.val(x.Val)))
			return
		}
	}
	if fa, ok := x.Addr.(*ssa.FieldAddr); ok {
		relevant := false // does a declared invariant of the type mention the stored field?
		if n, ok := fa.X.Type().Underlying().(*types.Pointer).Elem().(*types.Named); ok && n.Obj().Pkg() != nil {
			key := n.Obj().Pkg().Name() + "." + n.Obj().Name()
			fname := n.Underlying().(*types.Struct).Field(fa.Field).Name()
			relevant = e.P.Specs.invFields(key)[fname]
			if _, isAlloc := fa.X.(*ssa.Alloc); !isAlloc && relevant {
				if f.dirty == nil {
					f.dirty = map[string]bool{}
				}
				f.dirty[key] = true
			}
		}
		if _, isLv := f.lvals[fa.X]; !isLv && relevant {
			_, constructing := fa.X.(*ssa.Alloc) // initialising a fresh object: checked when it escapes
			if _, priv := f.privBase(fa.X); !priv && !constructing {
				e.touch(f.val(fa.X), fa.X.Type(), "field "+fa.X.Type().Underlying().(*types.Pointer).Elem().Underlying().(*types.Struct).Field(fa.Field).Name()+" stored")
			}
		}
	}
	lv := f.lvalOf(x.Addr, st)
	if lv.kind == 0 {
		if _, isLv := f.lvals[x.Addr]; !isLv {
			f.guard(c, "nil", x, not(eq(lv.base, intLit(0))))
		}
	}
	v := f.val(x.Val)
	want := elemSortOfLV(lv)
	if v.Sort != want {
		if v.Sort == SInt && want == SBV {
			v = f.intToBV(v)
		} else if v.Sort == SBV && want == SInt {
			v = f.bvToInt(v, isUnsigned(vt))
		}
	}
	f.storeLV(lv, v, st)
}

func elemSortOfLV(lv *LVal) Sort {
	var s Sort
	switch lv.kind {
	case 0:
		s = elemOfArray(lv.famSort)
	case 1:
		s = elemOfArray(elemOfArray(lv.famSort))
	default:
		s = lv.famSort
	}
	for _, p := range lv.path {
		s = p.dt.Sorts[p.i]
	}
	return s
}

func (f *Frame) execUnOp(c *cursor, x *ssa.UnOp) {
	e := f.e
	st := c.st
	switch x.Op {
	case token.MUL: // load
		pt := x.X.Type().Underlying().(*types.Pointer)
		et := pt.Elem()
		if g, ok := x.X.(*ssa.Global); ok {
			f.setVal(x, f.loadGlobal(g, st))
			return
		}
		if base, ok := f.privBase(x.X); ok {
			stt := et.Underlying().(*types.Struct)
			d := e.U.structDT(et)
			var args []Term
			for i := 0; i < stt.NumFields(); i++ {
				fam := base + "." + sanitize(stt.Field(i).Name())
				args = append(args, e.family(st, fam, d.Sorts[i]))
			}
			if len(args) == 0 {
				f.setVal(x, Term{"(" + d.Ctor + " 0)", Sort(d.Name)})
			} else {
				f.setVal(x, mk(Sort(d.Name), d.Ctor, args...))
			}
			return
		}
		if _, isLv := f.lvals[x.X]; !isLv {
			if _, ok := et.Underlying().(*types.Struct); ok && opaqueStruct(et) == "" {
				ref := f.val(x.X)
				f.guard(c, "nil", x, not(eq(ref, intLit(0))))
				f.setVal(x, f.loadStruct(ref, et, st))
				return
			}
		}
		if opaqueStruct(et) != "" {
			f.setVal(x, f.val(x.X))
			return
		}
		if at, ok := et.Underlying().(*types.Array); ok {
			if _, isLv := f.lvals[x.X]; !isLv {
				es := e.U.sortOf(at.Elem(), false)
				f.setVal(x, sel(e.family(st, memFam(es), memSort(es)), f.val(x.X), arraySort(SInt, es)))
				return
			}
		}
		lv := f.lvalOf(x.X, st)
		if _, isLv := f.lvals[x.X]; !isLv && lv.kind == 0 {
			f.guard(c, "nil", x, not(eq(lv.base, intLit(0))))
		}
		t := f.loadLV(lv, st)
		want := f.sortFor(x)
		if t.Sort != want {
			t = f.coerceSort(t, want, x.Type())
		}
		d := f.setVal(x, t)
		f.typeFacts(d, x.Type(), st)
		if lv.kind == 1 && len(lv.path) == 0 && f.elemNonNil(x.Type()) {
			switch d.Sort {
			case SInt:
				e.assume(not(eq(d, intLit(0))), d.S)
			case SIface:
				e.assume(not(eq(ifTag(d), intLit(0))), d.S)
			}
		}
	case token.NOT:
		f.setVal(x, not(f.val(x.X)))
	case token.SUB:
		v := f.val(x.X)
		if v.Sort == SBV {
			f.setVal(x, mk(SBV, "bvneg", v))
		} else {
			f.setVal(x, mk(SInt, "-", v))
		}
	case token.XOR:
		v := f.val(x.X)
		if v.Sort == SBV {
			f.setVal(x, mk(SBV, "bvnot", v))
		} else {
			// ^x == -x-1 on two's complement
			f.setVal(x, sub(mk(SInt, "-", v), intLit(1)))
		}
	case token.ARROW:
		// channel receive: abstracted
		if x.CommaOk {
			v := e.declare(f.name(x)+".rv", e.sortOf(x.Type().(*types.Tuple).At(0).Type()))
			f.typeFacts(v, x.Type().(*types.Tuple).At(0).Type(), st)
			f.tuples[x] = []Term{v, e.declare(f.name(x)+".ok", SBool)}
		} else {
			f.freshFor(x, st)
		}
	default:
		e.fail("%s: unop %s", f.fn.Name(), x.Op)
	}
}

func (f *Frame) loadGlobal(g *ssa.Global, st *State) Term {
	e := f.e
	et := g.Type().Underlying().(*types.Pointer).Elem()
	s := e.sortOf(et)
	gname := g.Pkg.Pkg.Name() + "." + g.Name()
	if !e.P.writtenGlobals[g] {
		// immutable after init: a global constant
		name := "g." + sanitize(gname)
		e.U.declareConst(name, s)
		t := Term{name, s}
		f.globalFacts(g, t, et)
		return t
	}
	lv := &LVal{fam: "G." + sanitize(gname), famSort: s, kind: 2, typ: et}
	return f.loadLV(lv, st)
}

// globalFacts: immutable error sentinels are non-nil and pairwise distinct.
func (f *Frame) globalFacts(g *ssa.Global, t Term, et types.Type) {
	e := f.e
	key := "gfact:" + t.S
	if e.names[key] != 0 {
		return
	}
	e.names[key] = 1
	if t.Sort == SIface && isErrorSentinel(g) {
		id := e.U.typeTag("sentinel:" + t.S)
		box, _ := e.U.box(SInt)
		e.U.axiom(fmt.Sprintf("(assert (= %s (mkiface %d (%s %d))))", t.S, e.U.typeTag("*errors.errorString"), box, 1000000+id), t.S)
	}
	if t.Sort == SInt {
		if _, ok := et.Underlying().(*types.Map); ok {
			e.U.axiom(fmt.Sprintf("(assert (> %s 0))", t.S), t.S)
		}
	}
}

func isErrorSentinel(g *ssa.Global) bool {
	switch g.Pkg.Pkg.Path() + "." + g.Name() {
	case "io.EOF", "io.ErrUnexpectedEOF", modPath + "/pattern.NoMatch", modPath + "/parser.errParamExp", modPath + "/parser.errBailout", modPath + "/interp.errBailout":
		return true
	}
	return false
}

func (f *Frame) execFieldAddr(c *cursor, x *ssa.FieldAddr) {
	e := f.e
	st := c.st
	pt := x.X.Type().Underlying().(*types.Pointer)
	stT := pt.Elem()
	sstruct := stT.Underlying().(*types.Struct)
	ft := sstruct.Field(x.Field).Type()
	// struct stored by value inside a slice element / cell: extend the path
	if base, ok := f.lvals[x.X]; ok {
		d := e.U.structDT(stT)
		nl := *base
		nl.path = append(append([]pathSel{}, base.path...), pathSel{d, x.Field})
		nl.typ = ft
		f.lvals[x] = &nl
		return
	}
	if base, ok := f.privBase(x.X); ok {
		fs := e.structFieldSort(stT, x.Field)
		f.lvals[x] = &LVal{fam: base + "." + sanitize(sstruct.Field(x.Field).Name()), famSort: fs, kind: 2, typ: ft}
		return
	}
	ref := f.val(x.X)
	if _, isAlloc := x.X.(*ssa.Alloc); !isAlloc {
		f.guard(c, "nil", x, not(eq(ref, intLit(0))))
		// visible-state semantics: objects satisfy their type invariant at every access
		f.refInvariant(ref, x.X.Type(), st)
	}
	if _, ok := ft.Underlying().(*types.Struct); ok {
		f.setVal(x, e.embRef(ref, stT, x.Field))
		return
	}
	fs := e.structFieldSort(stT, x.Field)
	f.lvals[x] = &LVal{fam: fieldFamily(stT, x.Field), famSort: arraySort(SInt, fs), kind: 0, base: ref, typ: ft}
	_ = st
}

func (f *Frame) execIndexAddr(c *cursor, x *ssa.IndexAddr) {
	e := f.e
	i := f.asInt(f.val(x.Index))
	switch t := x.X.Type().Underlying().(type) {
	case *types.Slice:
		s := f.val(x.X)
		f.guard(c, "bounds", x, and(le(intLit(0), i), lt(i, slLen(s))))
		es := e.U.sortOf(t.Elem(), false)
		f.lvals[x] = &LVal{fam: memFam(es), famSort: memSort(es), kind: 1, base: slBase(s), idx: add(slOff(s), i), typ: t.Elem()}
	case *types.Pointer:
		at := t.Elem().Underlying().(*types.Array)
		ref := f.val(x.X)
		f.guard(c, "bounds", x, and(le(intLit(0), i), lt(i, intLit(at.Len()))))
		es := e.U.sortOf(at.Elem(), false)
		f.lvals[x] = &LVal{fam: memFam(es), famSort: memSort(es), kind: 1, base: ref, idx: i, typ: at.Elem()}
	default:
		e.fail("%s: IndexAddr on %s", f.fn.Name(), x.X.Type())
	}
}

func (f *Frame) execSlice(c *cursor, x *ssa.Slice) {
	e := f.e
	var lo, hi, max Term
	if x.Low != nil {
		lo = f.asInt(f.val(x.Low))
	} else {
		lo = intLit(0)
	}
	if x.High != nil {
		hi = f.asInt(f.val(x.High))
	}
	if x.Max != nil {
		max = f.asInt(f.val(x.Max))
	}
	switch t := x.X.Type().Underlying().(type) {
	case *types.Basic: // string
		s := f.val(x.X)
		if hi.S == "" {
			hi = sLen(s)
		}
		f.guard(c, "slice", x, and(le(intLit(0), lo), le(lo, hi), le(hi, sLen(s))))
		f.setVal(x, f.substr(s, lo, hi))
	case *types.Slice:
		s := f.val(x.X)
		if hi.S == "" {
			hi = slLen(s)
		}
		cp := slCap(s)
		if max.S != "" {
			f.guard(c, "slice", x, and(le(intLit(0), lo), le(lo, hi), le(hi, max), le(max, slCap(s))))
			cp = max
		} else {
			f.guard(c, "slice", x, and(le(intLit(0), lo), le(lo, hi), le(hi, slCap(s))))
		}
		// a nil slice stays nil when sliced [0:0]
		f.setVal(x, mkSlice(slBase(s), add(slOff(s), lo), sub(hi, lo), sub(cp, lo)))
	case *types.Pointer: // pointer to array
		at := t.Elem().Underlying().(*types.Array)
		ref := f.val(x.X)
		n := intLit(at.Len())
		if hi.S == "" {
			hi = n
		}
		f.guard(c, "slice", x, and(le(intLit(0), lo), le(lo, hi), le(hi, n)))
		f.setVal(x, mkSlice(ref, lo, sub(hi, lo), sub(n, lo)))
	default:
		e.fail("%s: Slice on %s", f.fn.Name(), x.X.Type())
	}
}

func (f *Frame) execLookup(c *cursor, x *ssa.Lookup) {
	e := f.e
	st := c.st
	if e.sortOf(x.X.Type()) == SStr {
		s, i := f.val(x.X), f.asInt(f.val(x.Index))
		f.guard(c, "bounds", x, and(le(intLit(0), i), lt(i, sLen(s))))
		f.setVal(x, f.fromInt(sByte(s, i), x.Type()))
		return
	}
	mt := x.X.Type().Underlying().(*types.Map)
	ks, vs := e.U.sortOf(mt.Key(), false), e.U.sortOf(mt.Elem(), false)
	key := f.val(x.Index)
	if key.Sort != ks {
		key = f.coerce(key, x.Index.Type(), mt.Key())
	}
	var has, val Term
	if g := immutableGlobalMap(f.e.P, x.X); g != nil {
		has, val = f.globalMapLookup(g, key, ks, vs, mt)
	} else {
		m := f.val(x.X)
		hasArr := e.family(st, mapHasFam(ks, vs), arraySort(SInt, arraySort(ks, SBool)))
		valArr := e.family(st, mapValFam(ks, vs), arraySort(SInt, arraySort(ks, vs)))
		// reading a nil map yields the zero value
		has = and(not(eq(m, intLit(0))), sel(sel(hasArr, m, arraySort(ks, SBool)), key, SBool))
		val = sel(sel(valArr, m, arraySort(ks, vs)), key, vs)
	}
	zero := e.U.zeroOf(mt.Elem(), vs)
	v := e.define(f.name(x)+".v", ite(has, val, zero))
	if x.CommaOk {
		hd := e.define(f.name(x)+".ok", has)
		f.tuples[x] = []Term{v, hd}
		f.typeFacts(v, mt.Elem(), st)
	} else {
		f.vals[x] = v
		f.typeFacts(v, mt.Elem(), st)
	}
}

func (f *Frame) execMapUpdate(c *cursor, x *ssa.MapUpdate) {
	e := f.e
	st := c.st
	mt := x.Map.Type().Underlying().(*types.Map)
	ks, vs := e.U.sortOf(mt.Key(), false), e.U.sortOf(mt.Elem(), false)
	m := f.val(x.Map)
	f.guard(c, "nilmap", x, not(eq(m, intLit(0))))
	key, val := f.val(x.Key), f.val(x.Value)
	hf, vf := mapHasFam(ks, vs), mapValFam(ks, vs)
	hs, vsrt := arraySort(SInt, arraySort(ks, SBool)), arraySort(SInt, arraySort(ks, vs))
	hasArr := e.family(st, hf, hs)
	valArr := e.family(st, vf, vsrt)
	e.setFamily(st, hf, store(hasArr, m, store(sel(hasArr, m, arraySort(ks, SBool)), key, tTrue)))
	e.setFamily(st, vf, store(valArr, m, store(sel(valArr, m, arraySort(ks, vs)), key, val)))
}

func (f *Frame) execTypeAssert(c *cursor, x *ssa.TypeAssert) {
	e := f.e
	st := c.st
	v := f.val(x.X)
	var ok, res Term
	if iface, isI := x.AssertedType.Underlying().(*types.Interface); isI {
		// interface-to-interface: dynamic type implements the target
		if iface.NumMethods() == 0 {
			ok = not(eq(ifTag(v), intLit(0)))
		} else {
			var alts []Term
			for _, t := range e.P.implementers(iface) {
				alts = append(alts, eq(ifTag(v), intLit(int64(e.U.tagOf(t)))))
			}
			if f.repoOnlyIface(iface) {
				ok = or(alts...)
			} else {
				// library interface: other implementers may exist
				extra := e.declare(f.name(x)+".impl", SBool)
				ok = and(not(eq(ifTag(v), intLit(0))), or(append(alts, extra)...))
			}
		}
		res = v
	} else {
		ok = eq(ifTag(v), intLit(int64(e.U.tagOf(x.AssertedType))))
		res = f.unbox(v, x.AssertedType)
	}
	if x.CommaOk {
		okd := e.define(f.name(x)+".ok", ok)
		zero := e.zeroValue(x.AssertedType)
		rd := e.define(f.name(x)+".v", ite(okd, res, zero))
		f.typeFacts(rd, x.AssertedType, st)
		if rd.Sort == SInt && f.elemNonNil(x.X.Type()) {
			if _, _, sp := isStructPtr(x.AssertedType); sp {
				e.assume(implies(okd, not(eq(rd, intLit(0)))), rd.S)
			}
		}
		f.tuples[x] = []Term{rd, okd}
		return
	}
	f.guard(c, "assert", x, ok)
	d := f.setVal(x, res)
	f.typeFacts(d, x.AssertedType, st)
	f.unboxedNonNil(d, x)
	if _, _, sp := isStructPtr(x.AssertedType); sp {
		// a typed nil pointer can sit in an interface; nothing to add
		_ = sp
	}
}

func (f *Frame) execConvert(c *cursor, x *ssa.Convert) {
	e := f.e
	st := c.st
	from, to := x.X.Type(), x.Type()
	v := f.val(x.X)
	fs, ts := v.Sort, e.sortOf(to)
	fb, fok := from.Underlying().(*types.Basic)
	tb, tok := to.Underlying().(*types.Basic)
	switch {
	case fok && tok && fb.Info()&types.IsInteger != 0 && tb.Info()&types.IsInteger != 0:
		// integer conversion
		switch {
		case fs == SInt && ts == SInt:
			bits := intBits(to)
			if bits < 64 || isUnsigned(to) != isUnsigned(from) {
				// value-preserving when in range; otherwise wraps: model as a fresh
				// value equal to v when v is in range of the target
				lo, hi := intRange(to)
				in := and(le(lo, v), le(v, hi))
				r := e.declare(f.name(x), SInt)
				e.assume(and(implies(in, eq(r, v)), le(lo, r), le(r, hi)), r.S)
				f.vals[x] = r
				return
			}
			f.setVal(x, v)
		case fs == SBV && ts == SBV:
			bits := intBits(to)
			if bits < 64 {
				// truncate and extend
				ext := "zero_extend"
				if !isUnsigned(to) {
					ext = "sign_extend"
				}
				f.setVal(x, Term{fmt.Sprintf("((_ %s %d) ((_ extract %d 0) %s))", ext, 64-bits, bits-1, v.S), SBV})
				return
			}
			f.setVal(x, v)
		case fs == SInt && ts == SBV:
			f.setVal(x, f.intToBV(v))
		case fs == SBV && ts == SInt:
			f.setVal(x, f.bvToInt(v, isUnsigned(from) || isFlagType(from)))
		}
		return
	case tok && tb.Info()&types.IsString != 0 && fok && fb.Info()&types.IsInteger != 0:
		// string(rune)
		r := f.asInt(v)
		t := e.define(f.name(x), runeEnc(r))
		f.vals[x] = t
		f.runeEncFacts(t, r)
		return
	case ts == SStr && fs == SSlice:
		// string([]byte) / string([]rune): opaque
		f.freshFor(x, st)
		return
	case ts == SSlice && fs == SStr:
		// []byte(s): fresh slice holding the bytes
		r := f.freshRef(f.name(x)+".base", st)
		sl := f.setVal(x, mkSlice(r, intLit(0), sLen(v), sLen(v)))
		_ = sl
		return
	}
	if fs == ts {
		f.setVal(x, v)
		return
	}
	e.fail("%s: convert %s -> %s", f.fn.Name(), from, to)
}

func intRange(t types.Type) (Term, Term) {
	bits := intBits(t)
	if isUnsigned(t) {
		if bits == 64 {
			return intLit(0), Term{"18446744073709551615", SInt}
		}
		return intLit(0), intLit(1<<uint(bits) - 1)
	}
	if bits == 64 {
		return Term{"(- 9223372036854775808)", SInt}, Term{"9223372036854775807", SInt}
	}
	return intLit(-(1 << uint(bits-1))), intLit(1<<uint(bits-1) - 1)
}

// runeEncFacts: length and first byte of the UTF-8 encoding of r.
func (f *Frame) runeEncFacts(t, r Term) {
	e := f.e
	e.assume(and(le(intLit(1), sLen(t)), le(sLen(t), intLit(4)),
		eq(eq(sLen(t), intLit(1)), and(le(intLit(0), r), lt(r, intLit(128)))),
		implies(and(le(intLit(0), r), lt(r, intLit(128))), eq(sByte(t, intLit(0)), r)),
		implies(not(and(le(intLit(0), r), lt(r, intLit(128)))), ge(sByte(t, intLit(0)), intLit(128)))), t.S)
}

// ---- range / next ----

func (f *Frame) execRange(c *cursor, x *ssa.Range) {
	e := f.e
	st := c.st
	it := f.freshRef(f.name(x)+".it", st)
	f.vals[x] = it
	fam := "Iter.pos"
	e.setFamily(st, fam, store(e.family(st, fam, arraySort(SInt, SInt)), it, intLit(0)))
}

func (f *Frame) execNext(c *cursor, x *ssa.Next) {
	e := f.e
	st := c.st
	rng, _ := x.Iter.(*ssa.Range)
	it := f.val(x.Iter)
	tt := x.Type().(*types.Tuple)
	if x.IsString && rng != nil {
		s := f.val(rng.X)
		fam := "Iter.pos"
		arr := e.family(st, fam, arraySort(SInt, SInt))
		pos := e.define(f.name(x)+".pos", sel(arr, it, SInt))
		// built-in iterator invariant (holds for every range loop by construction)
		e.assume(and(le(intLit(0), pos), le(pos, sLen(s))), pos.S)
		if _, used := e.U.funs["boundary"]; used {
			e.assume(app(SBool, "boundary", s, pos), pos.S) // the iterator stands at the start of a character
		}
		ok := e.define(f.name(x)+".ok", lt(pos, sLen(s)))
		r := e.define(f.name(x)+".r", runeAt(s, pos))
		w := e.define(f.name(x)+".w", widthAt(s, pos))
		f.runeFacts(s, pos, r, w, ok)
		e.setFamily(st, fam, store(arr, it, ite(ok, add(pos, w), pos)))
		f.tuples[x] = []Term{ok, f.fromInt(pos, tt.At(1).Type()), f.fromInt(r, tt.At(2).Type())}
		return
	}
	// map iteration: arbitrary order, abstracted
	ok := e.declare(f.name(x)+".ok", SBool)
	kt, vt := tt.At(1).Type(), tt.At(2).Type()
	if rng != nil {
		if mt, isMap := rng.X.Type().Underlying().(*types.Map); isMap {
			kt, vt = mt.Key(), mt.Elem()
		}
	}
	k := e.declare(f.name(x)+".k", e.U.sortOf(kt, false))
	v := e.declare(f.name(x)+".v", e.U.sortOf(vt, false))
	f.typeFacts(k, kt, st)
	f.typeFacts(v, vt, st)
	if rng != nil {
		if mt, isMap := rng.X.Type().Underlying().(*types.Map); isMap {
			ks, vs := e.U.sortOf(mt.Key(), false), e.U.sortOf(mt.Elem(), false)
			m := f.val(rng.X)
			hasArr := e.family(st, mapHasFam(ks, vs), arraySort(SInt, arraySort(ks, SBool)))
			valArr := e.family(st, mapValFam(ks, vs), arraySort(SInt, arraySort(ks, vs)))
			e.assume(implies(ok, and(sel(sel(hasArr, m, arraySort(ks, SBool)), k, SBool),
				eq(v, sel(sel(valArr, m, arraySort(ks, vs)), k, vs)))), ok.S)
		}
	}
	f.tuples[x] = []Term{ok, k, v}
}

// runeFacts: the decoding contract of range-over-string and DecodeRuneInString.
func (f *Frame) runeFacts(s, pos, r, w, inRange Term) {
	e := f.e
	b0 := sByte(s, pos)
	e.assume(implies(inRange, and(
		le(intLit(1), w), le(w, intLit(4)), le(add(pos, w), sLen(s)),
		le(intLit(0), r), le(r, intLit(0x10FFFF)),
		implies(lt(b0, intLit(128)), and(eq(r, b0), eq(w, intLit(1)))),
		implies(ge(b0, intLit(128)), ge(r, intLit(128))),
		implies(eq(r, intLit(65533)), or(eq(w, intLit(1)), eq(w, intLit(3)))),
		implies(lt(r, intLit(128)), eq(w, intLit(1))),
	)), r.S, w.S)
}

// unboxedNonNil: interfaces of a "wf elems" package never hold typed nil pointers.
func (f *Frame) unboxedNonNil(d Term, x *ssa.TypeAssert) {
	if d.Sort != SInt || !f.elemNonNil(x.X.Type()) {
		return
	}
	if _, _, sp := isStructPtr(x.AssertedType); sp {
		f.e.assume(not(eq(d, intLit(0))), d.S)
	}
}

func (f *Frame) invProps(inv *Clause) []string {
	if inv.Props != nil {
		return inv.Props
	}
	return f.props
}

func (f *Frame) privBase(v ssa.Value) (string, bool) {
	for fr := f; fr != nil; fr = fr.parent {
		if b, ok := fr.privStruct[v]; ok {
			return b, true
		}
	}
	// free variables of closures bound to a private struct of the enclosing frame
	if b, ok := f.privAlias[v]; ok {
		return b, true
	}
	return "", false
}

// privateAlloc: the address of the allocation is used only for loads,
// stores, field addressing and capture by closures that are themselves only
// called or deferred in this function.
func (f *Frame) privateAlloc(a *ssa.Alloc) bool {
	et := a.Type().Underlying().(*types.Pointer).Elem()
	if opaqueStruct(et) != "" {
		return false
	}
	switch t := et.Underlying().(type) {
	case *types.Array:
		return false
	case *types.Struct:
		for i := 0; i < t.NumFields(); i++ {
			ft := t.Field(i).Type()
			if _, nested := ft.Underlying().(*types.Struct); nested {
				return false
			}
		}
	}
	return addrPrivate(a, 0)
}

func addrPrivate(v ssa.Value, depth int) bool {
	if depth > 3 || v.Referrers() == nil {
		return false
	}
	for _, r := range *v.Referrers() {
		switch x := r.(type) {
		case *ssa.DebugRef:
		case *ssa.UnOp:
			if x.Op != token.MUL {
				return false
			}
		case *ssa.Store:
			if x.Val == v {
				return false // the address itself is stored somewhere
			}
		case *ssa.FieldAddr:
			if _, isStruct := x.Type().Underlying().(*types.Pointer).Elem().Underlying().(*types.Struct); isStruct {
				return false
			}
			if !addrPrivate(x, depth+1) {
				return false
			}
		case *ssa.MakeClosure:
			// the closure may only be called or deferred directly
			if x.Referrers() == nil {
				return false
			}
			for _, cr := range *x.Referrers() {
				switch y := cr.(type) {
				case *ssa.DebugRef:
				case *ssa.Call:
					if y.Call.Value != x {
						return false
					}
				case *ssa.Defer:
					if y.Call.Value != x {
						return false
					}
				default:
					return false
				}
			}
			// inside the closure the free variable must be private too
			fn := x.Fn.(*ssa.Function)
			for i, b := range x.Bindings {
				if b == v {
					if i >= len(fn.FreeVars) || !addrPrivate(fn.FreeVars[i], depth+1) {
						return false
					}
				}
			}
		default:
			return false
		}
	}
	return true
}

// checkAnchors: site flags and anchored assertions of the top-level contract.
func (f *Frame) checkAnchors(c *cursor, b *ssa.BasicBlock, idx int, in ssa.Instruction, first bool) {
	sp := f.e.Spec
	if sp == nil || (len(sp.Sites) == 0 && len(sp.Asserts) == 0) {
		return
	}
	match := func(anchor string) bool {
		switch {
		case strings.HasPrefix(anchor, "call "):
			want := strings.TrimSpace(anchor[5:])
			ord := 0
			if k := strings.LastIndex(want, "#"); k > 0 {
				if n, err := strconv.Atoi(want[k+1:]); err == nil {
					ord, want = n, want[:k]
				}
			}
			if ord > 0 && f.callOrdinal(in, want) != ord {
				return false
			}
			var cc *ssa.CallCommon
			switch x := in.(type) {
			case *ssa.Call:
				cc = &x.Call
			case *ssa.Defer:
				cc = &x.Call
			case *ssa.Go:
				cc = &x.Call // "call f" also anchors a go statement that starts f
			}
			if cc == nil {
				return false
			}
			return calleeName(cc) == want
		case strings.HasPrefix(anchor, "label "):
			return first && b.Comment == strings.TrimSpace(anchor[6:])
		case anchor == "return":
			_, ok := in.(*ssa.Return)
			return ok
		}
		return false
	}
	for _, s := range sp.Sites {
		if match(s.Anchor) {
			s.Used = true
			if old, ok := f.sites[s.Name]; ok {
				f.sites[s.Name] = f.e.define("site."+s.Name, or(old, c.reach))
			} else {
				f.sites[s.Name] = c.reach
			}
			if f.siteStates == nil {
				f.siteStates = map[string]*State{}
			}
			f.pendingSiteRet += " " + s.Name
			f.siteStates[s.Name] = c.st.clone()
			if f.siteLookups == nil {
				f.siteLookups = map[string]func(string) (Term, types.Type, bool){}
			}
			f.siteLookups[s.Name] = f.resolverAtPoint(b, idx, nil, c.st.clone())
			if call, ok := in.(*ssa.Call); ok {
				if f.siteArgs == nil {
					f.siteArgs = map[string]sval{}
				}
				for i, av := range call.Call.Args {
					if _, isLv := f.lvals[av]; isLv {
						continue
					}
					key := fmt.Sprintf("%s.%d", s.Name, i)
					v := f.val(av)
					if old, ok := f.siteArgs[key]; ok && old.t.Sort == v.Sort {
						v = f.e.define("sitearg."+s.Name, ite(c.reach, v, old.t))
					}
					f.siteArgs[key] = sval{v, av.Type()}
				}
			}
		}
	}
	for _, a := range sp.Asserts {
		if !match(a.Anchor) {
			continue
		}
		a.Used = true
		env := &SpecEnv{f: f, names: map[string]Term{}, types: map[string]types.Type{}, cur: c.st, old: f.entry}
		env.lookup = f.resolverAtPoint(b, idx, nil, c.st)
		// arguments of the anchored call are available as arg0, arg1, ...
		if call, ok := in.(*ssa.Call); ok {
			if bi, isB := call.Call.Value.(*ssa.Builtin); isB && bi.Name() == "append" && len(call.Call.Args) == 2 {
				if one := f.singletonSlice(call.Call.Args[1]); one != nil {
					env.names["elem"] = f.val(one) // the single appended element
					env.types["elem"] = one.Type()
				}
			}
			for i, av := range call.Call.Args {
				if _, isLv := f.lvals[av]; isLv {
					continue
				}
				env.names[fmt.Sprintf("arg%d", i)] = f.val(av)
				env.types[fmt.Sprintf("arg%d", i)] = av.Type()
			}
		}
		t, err := env.evalBool(a.Clause.Expr)
		if err != nil {
			f.e.specError("%s: assert at %s: %v", f.e.Key, a.Anchor, err)
			continue
		}
		f.e.addOblig("assertion", a.Anchor+": "+a.Clause.Name, a.Clause.Props, f.e.P.position(in.Pos()), c.reach, t)
	}
}

func calleeName(cc *ssa.CallCommon) string {
	if cc.IsInvoke() {
		return cc.Method.Name()
	}
	switch v := cc.Value.(type) {
	case *ssa.Function:
		if v.Pkg != nil {
			return v.Pkg.Pkg.Name() + "." + v.RelString(v.Pkg.Pkg)
		}
		return v.Name()
	case *ssa.Builtin:
		return v.Name()
	case *ssa.MakeClosure:
		// a call of a closure made in this function: named like the closure
		if fn, ok := v.Fn.(*ssa.Function); ok {
			for p := fn.Parent(); p != nil; p = p.Parent() {
				if p.Pkg != nil {
					return p.Pkg.Pkg.Name() + "." + fn.RelString(p.Pkg.Pkg)
				}
			}
			return fn.Name()
		}
	}
	return cc.Value.Name()
}

// callOrdinal: position of a call among the calls of the same callee, in
// the static order of the function's instructions.
func (f *Frame) callOrdinal(in ssa.Instruction, callee string) int {
	// ordinal in source order (position of the call), not SSA block order
	type cp struct {
		in  ssa.Instruction
		pos token.Pos
		seq int
	}
	var cs []cp
	seq := 0
	for _, b := range f.fn.Blocks {
		for _, i2 := range b.Instrs {
			var cc *ssa.CallCommon
			switch x := i2.(type) {
			case *ssa.Call:
				cc = &x.Call
			case *ssa.Defer:
				cc = &x.Call
			}
			if cc != nil && calleeName(cc) == callee {
				seq++
				cs = append(cs, cp{i2, i2.Pos(), seq})
			}
		}
	}
	sort.SliceStable(cs, func(a, b int) bool {
		if cs[a].pos != cs[b].pos {
			return cs[a].pos < cs[b].pos
		}
		return cs[a].seq < cs[b].seq
	})
	for k, c := range cs {
		if c.in == in {
			return k + 1
		}
	}
	return -1
}

// boundMethodTarget: the method a "bound method wrapper" closure calls.
func boundMethodTarget(fn *ssa.Function) *ssa.Function {
	if !strings.Contains(fn.Synthetic, "bound method wrapper") {
		return nil
	}
	for _, b := range fn.Blocks {
		for _, in := range b.Instrs {
			if c, ok := in.(*ssa.Call); ok {
				if t := c.Call.StaticCallee(); t != nil {
					return t
				}
			}
		}
	}
	return nil
}

func mentionsParams(x *SExpr, ps []*ssa.Parameter) bool {
	if x == nil {
		return false
	}
	if x.Op == "ident" {
		for _, p := range ps {
			if p.Name() == x.Name {
				return true
			}
		}
	}
	for _, a := range x.Args {
		if mentionsParams(a, ps) {
			return true
		}
	}
	return false
}

// publish: a reference to an object this activation allocated is about to
// become reachable by others (stored, boxed, appended, passed, returned): its
// type invariant must hold now (K7).
func (f *Frame) publish(c *cursor, v ssa.Value, in ssa.Instruction) {
	e := f.e
	a, ok := v.(*ssa.Alloc)
	if !ok || a.Parent() != f.fn {
		return
	}
	_, stT, isPtr := isStructPtr(a.Type())
	if !isPtr {
		return
	}
	n, isNamed := stT.(*types.Named)
	if !isNamed || n.Obj().Pkg() == nil {
		return
	}
	key := n.Obj().Pkg().Name() + "." + n.Obj().Name()
	invs := e.P.Specs.TypeInvs[key]
	if len(invs) == 0 {
		return
	}
	if f.published == nil {
		f.published = map[ssa.Value]bool{}
	}
	if f.published[v] {
		return
	}
	f.published[v] = true
	f.checkOwnInv(c.st, c.reach, a, in, "established before the new object escapes")
}

// ownInvTerms evaluates the declared invariants of the object allocated by a
// in state st.
func (f *Frame) ownInvTerms(st *State, a *ssa.Alloc) (key string, texts []string, ts []Term) {
	e := f.e
	_, stT, isPtr := isStructPtr(a.Type())
	if !isPtr {
		return
	}
	n, isNamed := stT.(*types.Named)
	if !isNamed || n.Obj().Pkg() == nil {
		return
	}
	key = n.Obj().Pkg().Name() + "." + n.Obj().Name()
	ref, ok := f.vals[a]
	if !ok {
		return
	}
	for _, inv := range e.P.Specs.TypeInvs[key] {
		env := &SpecEnv{f: f, names: map[string]Term{"self": ref}, types: map[string]types.Type{"self": a.Type()}, cur: st, old: st, pkg: n.Obj().Pkg()}
		f.noInv = true
		t, err := env.evalBool(inv.Expr)
		f.noInv = false
		if err != nil {
			e.specError("wf %s: %v", key, err)
			continue
		}
		texts = append(texts, inv.Text)
		ts = append(ts, t)
	}
	return
}

func (f *Frame) checkOwnInv(st *State, reach Term, a *ssa.Alloc, in ssa.Instruction, what string) {
	key, texts, ts := f.ownInvTerms(st, a)
	for i, t := range ts {
		_, pos := f.obligName("wf", in)
		name := fmt.Sprintf("%s %s: %s", key, what, texts[i])
		if f.depth > 0 {
			name += "@" + f.fn.Name()
		}
		f.e.addOblig("wf", name, f.props, pos, reach, t)
	}
}

// loopOwned: objects this activation allocated before the loop, with a
// declared invariant, that the loop body hands to other code.  Their invariant
// is an implicit loop invariant: established on entry, re-established at every
// back edge, assumed at the head.
func (f *Frame) loopOwned(li *loopInfo) []*ssa.Alloc {
	var out []*ssa.Alloc
	seen := map[*ssa.Alloc]bool{}
	for b := range li.body {
		for _, in := range b.Instrs {
			for _, op := range in.Operands(nil) {
				a, ok := (*op).(*ssa.Alloc)
				if !ok || seen[a] || a.Parent() != f.fn || li.body[a.Block()] {
					continue
				}
				seen[a] = true
				if _, stT, isPtr := isStructPtr(a.Type()); isPtr {
					if n, ok := stT.(*types.Named); ok && n.Obj().Pkg() != nil && len(f.e.P.Specs.TypeInvs[n.Obj().Pkg().Name()+"."+n.Obj().Name()]) > 0 {
						if _, have := f.vals[a]; have {
							out = append(out, a)
						}
					}
				}
			}
		}
	}
	sort.Slice(out, func(i, j int) bool { return out[i].Pos() < out[j].Pos() })
	return out
}

// goroutineOwnObject: a goroutine started as a method on an object may change
// that object's own fields (and those of its embedded structs) at any time
// from now on: they are given arbitrary values here.  Its writes to anything
// else are concurrency and are not modelled (DESIGN 2.6).
func (f *Frame) goroutineOwnObject(c *cursor, g *ssa.Go) {
	e := f.e
	callee := g.Call.StaticCallee()
	if callee == nil || callee.Signature.Recv() == nil || len(g.Call.Args) == 0 {
		return
	}
	recv := g.Call.Args[0]
	_, stT, ok := isStructPtr(recv.Type())
	if !ok {
		return
	}
	ref, ok := f.vals[recv]
	if !ok {
		return
	}
	var walk func(ref Term, t types.Type)
	walk = func(ref Term, t types.Type) {
		st := t.Underlying().(*types.Struct)
		for i := 0; i < st.NumFields(); i++ {
			ft := st.Field(i).Type()
			if _, nested := ft.Underlying().(*types.Struct); nested {
				if opaqueStruct(ft) == "" {
					walk(e.embRef(ref, t, i), ft)
				}
				continue
			}
			fam := fieldFamily(t, i)
			if !f.fieldWrittenInPackage(fam) {
				continue // no function of the package assigns this field after construction
			}
			fs := e.structFieldSort(t, i)
			arr := e.family(c.st, fam, arraySort(SInt, fs))
			nv := e.declare(f.pfx+"go."+sanitize(st.Field(i).Name()), fs)
			f.typeFacts(nv, ft, c.st)
			e.setFamily(c.st, fam, store(arr, ref, nv))
		}
	}
	walk(ref, stT)
}

// fieldWrittenInPackage: some function of the program stores to the field
// family outside the construction of a fresh object.
func (f *Frame) fieldWrittenInPackage(fam string) bool {
	P := f.e.P
	if P.writtenFams == nil {
		P.writtenFams = map[string]bool{}
		for _, fn := range P.Funcs {
			for k := range P.effectsOf(fn, f.e.U).Fams {
				P.writtenFams[k] = true
			}
		}
	}
	return P.writtenFams[fam]
}

// signalOnlyChan: the channel is loaded from a struct field that no function of
// the program ever sends on (it is only closed and received from).
func (P *Program) signalOnlyChan(v ssa.Value) bool {
	fieldOf := func(v ssa.Value) string {
		if u, ok := v.(*ssa.UnOp); ok && u.Op == token.MUL {
			if fa, ok := u.X.(*ssa.FieldAddr); ok {
				if _, stT, ok := isStructPtr(fa.X.Type()); ok {
					return fieldFamily(stT, fa.Field)
				}
			}
		}
		return ""
	}
	if P.sentFields == nil {
		P.sentFields = map[string]bool{}
		for _, fn := range P.Funcs {
			for _, b := range fn.Blocks {
				for _, in := range b.Instrs {
					switch x := in.(type) {
					case *ssa.Send:
						if k := fieldOf(x.Chan); k != "" {
							P.sentFields[k] = true
						} else {
							P.sentFields["*"] = true
						}
					case *ssa.Select:
						for _, sc := range x.States {
							if sc.Dir == types.SendOnly {
								if k := fieldOf(sc.Chan); k != "" {
									P.sentFields[k] = true
								} else {
									P.sentFields["*"] = true
								}
							}
						}
					}
				}
			}
		}
	}
	k := fieldOf(v)
	return k != "" && !P.sentFields[k] && !P.sentFields["*"]
}
