package main

import (
	"flag"

	"golang.org/x/tools/go/ssa"

	"fmt"
	"os"
	"regexp"
	"sort"
	"strings"
	"time"
)

func main() {
	if len(os.Args) < 2 {
		fmt.Fprintln(os.Stderr, "usage: govc run|check ...")
		os.Exit(2)
	}
	switch os.Args[1] {
	case "run":
		cmdRun(os.Args[2:])
	case "check":
		cmdCheck(os.Args[2:])
	default:
		fmt.Fprintln(os.Stderr, "unknown command")
		os.Exit(2)
	}
}

// cmdRun: development driver; verifies the functions matching a regexp and
// prints every obligation with its result.
func cmdRun(args []string) {
	fs := flag.NewFlagSet("run", flag.ExitOnError)
	repo := fs.String("repo", "/repo", "repository")
	verif := fs.String("verif", "/verif", "verif dir")
	pat := fs.String("funcs", ".", "regexp on function keys")
	timeout := fs.Int("timeout", 10, "solver timeout (s)")
	jobs := fs.Int("jobs", 16, "parallel queries")
	out := fs.String("out", "/verif/out/run", "query directory")
	verbose := fs.Bool("v", false, "print passing obligations")
	only := fs.String("only", "", "regexp on obligation names")
	nosolve := fs.Bool("nosolve", false, "only generate")
	fs.Parse(args)
	t0 := time.Now()
	P, err := loadProgram(*repo)
	if err != nil {
		fmt.Fprintln(os.Stderr, "load:", err)
		os.Exit(2)
	}
	P.OutDir = *out
	P.Specs = loadSpecs(findSpecFiles(*repo, *verif))
	P.bindActions()
	for _, e := range P.Specs.Errors {
		fmt.Println("SPEC-ERROR", e)
	}
	fmt.Printf("loaded %d functions, %d contracts in %.1fs\n", len(P.Funcs), len(P.Specs.Funcs), time.Since(t0).Seconds())
	if k := os.Getenv("GOVC_REGIONS"); k != "" {
		debugRegions(P, k)
	}
	re := regexp.MustCompile(*pat)
	var reOnly *regexp.Regexp
	if *only != "" {
		reOnly = regexp.MustCompile(*only)
	}
	U := newUniverse()
	var obs []*Oblig
	var fns []*ssa.Function
	for _, k := range P.sortedFuncKeys() {
		if !re.MatchString(k) {
			continue
		}
		fn := P.Funcs[k]
		if len(fn.Blocks) == 0 || (inPlaceClosure(fn) && !P.specFor(fn).hasContract()) || P.skipped(fn) != "" {
			continue
		}
		fns = append(fns, fn)
	}
	inv := inferAll(P, U, fns, *out+"/houdini", 0)
	fmt.Printf("invariants inferred in %.1fs\n", time.Since(t0).Seconds())
	for _, fn := range fns {
		k := funcKey(fn)
		e := verifyWith(P, U, fn, nil, inv[fn])
		if e.unsupported != "" {
			fmt.Printf("UNSUPPORTED %s: %s\n", k, e.unsupported)
			continue
		}
		for _, w := range e.specErrs {
			fmt.Println("SPEC-ERROR", w)
		}
		if *verbose {
			for _, w := range e.warnings {
				fmt.Println("  warn:", w)
			}
		}
		for _, o := range e.obligs {
			if reOnly != nil && !reOnly.MatchString(o.Name) {
				continue
			}
			obs = append(obs, o)
		}
	}
	fmt.Printf("%d obligations generated in %.1fs\n", len(obs), time.Since(t0).Seconds())
	if *nosolve {
		for _, o := range obs {
			fmt.Println(o.Name)
		}
		return
	}
	solveAll(obs, *out, *timeout, *jobs, 0, []int{0, 1, 2}, true)
	bad := 0
	sort.SliceStable(obs, func(i, j int) bool { return obs[i].Func < obs[j].Func })
	for _, o := range obs {
		if o.ok() {
			if *verbose {
				fmt.Printf("ok    %-8s %5dms %-12s %s\n", o.Result.Status, o.Result.Ms, o.Result.Backend, o.Name)
			}
			continue
		}
		bad++
		fmt.Printf("FAIL  %-8s %5dms %-12s %s  (%s) %s\n", o.Result.Status, o.Result.Ms, o.Result.Backend, o.Name, o.Pos, o.Result.Query)
		if len(o.Result.Model) > 0 {
			var ks []string
			for k := range o.Result.Model {
				ks = append(ks, k)
			}
			sort.Strings(ks)
			for _, k := range ks {
				fmt.Printf("        %s = %s\n", k, o.Result.Model[k])
			}
		}
		if o.Result.Backend == "effects-analysis" {
			fmt.Println("        " + o.Result.Output)
		}
		if o.Result.Status == "error" {
			fmt.Println("        " + strings.ReplaceAll(strings.TrimSpace(o.Result.Output), "\n", "\n        "))
		}
	}
	fmt.Printf("%d obligations, %d not discharged, %.1fs\n", len(obs), bad, time.Since(t0).Seconds())
}

// inPlaceClosure: an anonymous function that is only called or deferred
// directly where it is created; it is verified inside its parent.
func inPlaceClosure(fn *ssa.Function) bool {
	par := fn.Parent()
	if par == nil {
		return false
	}
	found := false
	for _, b := range par.Blocks {
		for _, in := range b.Instrs {
			mc, ok := in.(*ssa.MakeClosure)
			if !ok || mc.Fn != fn {
				continue
			}
			found = true
			if mc.Referrers() == nil {
				return false
			}
			for _, r := range *mc.Referrers() {
				switch y := r.(type) {
				case *ssa.DebugRef:
				case *ssa.Call:
					if y.Call.Value != mc {
						return false
					}
				case *ssa.Defer:
					if y.Call.Value != mc {
						return false
					}
				default:
					return false
				}
			}
		}
	}
	return found
}
