package main

import (
	"fmt"
	"go/constant"
	"go/types"
	"strconv"
	"strings"

	"golang.org/x/tools/go/ssa"
)

// SpecEnv evaluates contract expressions to SMT terms.
type SpecEnv struct {
	f        *Frame
	names    map[string]Term
	types    map[string]types.Type
	bound    map[string]Sort // quantified variables
	cur      *State
	old      *State
	lookup   func(name string) (Term, types.Type, bool) // program-point resolver
	pkg      *types.Package
	rangePos func() (Term, bool)
	retInstr *ssa.Return // the return statement a postcondition is evaluated at
}

type sval struct {
	t   Term
	typ types.Type
}

func (env *SpecEnv) evalBool(x *SExpr) (Term, error) {
	v, err := env.eval(x)
	if err != nil {
		return tTrue, err
	}
	if v.t.Sort != SBool {
		return tTrue, fmt.Errorf("expression is %s, not Bool", v.t.Sort)
	}
	return v.t, nil
}

func (env *SpecEnv) pkgOf() *types.Package {
	if env.pkg != nil {
		return env.pkg
	}
	if env.f != nil && env.f.fn.Pkg != nil {
		return env.f.fn.Pkg.Pkg
	}
	if env.f != nil {
		return env.f.e.Top.Pkg.Pkg
	}
	return nil
}

func (env *SpecEnv) eval(x *SExpr) (sval, error) {
	e := env.f.e
	switch x.Op {
	case "bool":
		return sval{boolLit(x.Name == "true"), types.Typ[types.Bool]}, nil
	case "int":
		n, err := strconv.ParseInt(x.Name, 0, 64)
		if err != nil {
			u, err2 := strconv.ParseUint(x.Name, 0, 64)
			if err2 != nil {
				return sval{}, err
			}
			return sval{Term{fmt.Sprintf("%d", u), SInt}, types.Typ[types.UntypedInt]}, nil
		}
		return sval{intLit(n), types.Typ[types.UntypedInt]}, nil
	case "str":
		return sval{e.U.strLit(x.Name), types.Typ[types.String]}, nil
	case "nil":
		return sval{Term{"nil", "nil"}, types.Typ[types.UntypedNil]}, nil
	case "ident":
		return env.ident(x.Name)
	case "old":
		sub := *env
		sub.cur = env.old
		return sub.eval(x.Args[0])
	case "sel":
		return env.selector(x)
	case "index":
		return env.index(x)
	case "slice":
		return env.sliceExpr(x)
	case "call":
		return env.call(x)
	case "is", "cast":
		v, err := env.eval(x.Args[0])
		if err != nil {
			return sval{}, err
		}
		t, err := env.resolveType(x.Name)
		if err != nil {
			return sval{}, err
		}
		if v.t.Sort != SIface {
			return sval{}, fmt.Errorf("'%s' on non-interface", x.Op)
		}
		if x.Op == "is" {
			if isInterface(t) {
				var alts []Term
				for _, c := range e.P.implementers(t.Underlying().(*types.Interface)) {
					alts = append(alts, eq(ifTag(v.t), intLit(int64(e.U.tagOf(c)))))
				}
				return sval{or(alts...), types.Typ[types.Bool]}, nil
			}
			return sval{eq(ifTag(v.t), intLit(int64(e.U.tagOf(t)))), types.Typ[types.Bool]}, nil
		}
		if isInterface(t) {
			return sval{v.t, t}, nil
		}
		return sval{env.f.unbox(v.t, t), t}, nil
	case "unary":
		v, err := env.eval(x.Args[0])
		if err != nil {
			return sval{}, err
		}
		switch x.Name {
		case "!":
			return sval{not(v.t), v.typ}, nil
		case "-":
			if v.t.Sort == SBV {
				return sval{mk(SBV, "bvneg", v.t), v.typ}, nil
			}
			return sval{mk(SInt, "-", v.t), v.typ}, nil
		case "^":
			if v.t.Sort == SBV {
				return sval{mk(SBV, "bvnot", v.t), v.typ}, nil
			}
			return sval{sub(mk(SInt, "-", v.t), intLit(1)), v.typ}, nil
		}
	case "binary":
		return env.binary(x)
	case "cond":
		c, err := env.evalBool(x.Args[0])
		if err != nil {
			return sval{}, err
		}
		a, err := env.eval(x.Args[1])
		if err != nil {
			return sval{}, err
		}
		b, err := env.eval(x.Args[2])
		if err != nil {
			return sval{}, err
		}
		a, b = env.unify(a, b)
		return sval{ite(c, a.t, b.t), a.typ}, nil
	case "forall", "exists":
		sub := *env
		sub.bound = map[string]Sort{}
		for k, v := range env.bound {
			sub.bound[k] = v
		}
		var decl []string
		for _, v := range x.Vars {
			sub.bound[v] = SInt
			decl = append(decl, fmt.Sprintf("(q.%s Int)", v))
		}
		body, err := sub.evalBool(x.Args[0])
		if err != nil {
			return sval{}, err
		}
		return sval{Term{fmt.Sprintf("(%s (%s) %s)", x.Op, strings.Join(decl, " "), body.S), SBool}, types.Typ[types.Bool]}, nil
	}
	return sval{}, fmt.Errorf("cannot evaluate %s %s", x.Op, x.Name)
}

func (env *SpecEnv) ident(name string) (sval, error) {
	e := env.f.e
	if s, ok := env.bound[name]; ok {
		return sval{Term{"q." + name, s}, types.Typ[types.Int]}, nil
	}
	if t, ok := env.names[name]; ok {
		return sval{t, env.types[name]}, nil
	}
	if strings.HasSuffix(name, "#0") && env.lookup == nil {
		// entry value of a parameter, at a call site: the argument
		if t, ok := env.names[strings.TrimSuffix(name, "#0")]; ok {
			return sval{t, env.types[strings.TrimSuffix(name, "#0")]}, nil
		}
	}
	if env.lookup != nil {
		if t, typ, ok := env.lookup(name); ok {
			return sval{t, typ}, nil
		}
	}
	// package-level object of the function's package
	if pkg := env.pkgOf(); pkg != nil {
		if obj := pkg.Scope().Lookup(name); obj != nil {
			return env.pkgObject(pkg, obj)
		}
	}
	if g, ok := e.ghostEntry[name]; ok {
		_ = g
	}
	return sval{}, fmt.Errorf("unknown name %q", name)
}

func (env *SpecEnv) pkgObject(pkg *types.Package, obj types.Object) (sval, error) {
	e := env.f.e
	switch o := obj.(type) {
	case *types.Const:
		s := e.sortOf(o.Type())
		switch s {
		case SStr:
			return sval{e.U.strLit(constant.StringVal(o.Val())), o.Type()}, nil
		case SBool:
			return sval{boolLit(constant.BoolVal(o.Val())), o.Type()}, nil
		case SBV:
			v, _ := constant.Uint64Val(constant.ToInt(o.Val()))
			return sval{bvLit(v), o.Type()}, nil
		default:
			v, _ := constant.Int64Val(constant.ToInt(o.Val()))
			return sval{intLit(v), o.Type()}, nil
		}
	case *types.Var:
		// global variable
		for _, sp := range e.P.SSAPkgs {
			if sp.Pkg == pkg {
				if g, ok := sp.Members[o.Name()].(*ssa.Global); ok {
					t := env.f.loadGlobal(g, env.cur)
					if _, isMap := o.Type().Underlying().(*types.Map); isMap && immutableMapGlobal(e.P, g) != nil {
						if e.gmTerms == nil {
							e.gmTerms = map[string]*ssa.Global{}
						}
						e.gmTerms[t.S] = g
					}
					return sval{t, o.Type()}, nil
				}
			}
		}
		// imported package global
		if sp := e.P.SSA.Package(pkg); sp != nil {
			if g, ok := sp.Members[o.Name()].(*ssa.Global); ok {
				t := env.f.loadGlobal(g, env.cur)
				if _, isMap := o.Type().Underlying().(*types.Map); isMap && immutableMapGlobal(e.P, g) != nil {
					if e.gmTerms == nil {
						e.gmTerms = map[string]*ssa.Global{}
					}
					e.gmTerms[t.S] = g
				}
				return sval{t, o.Type()}, nil
			}
		}
	}
	return sval{}, fmt.Errorf("unsupported package object %s", obj.Name())
}

func (env *SpecEnv) findPackage(name string) *types.Package {
	e := env.f.e
	for _, p := range e.P.Pkgs {
		if p.Name == name {
			return p.Types
		}
	}
	for _, p := range e.P.Pkgs {
		for _, imp := range p.Types.Imports() {
			if imp.Name() == name {
				return imp
			}
		}
	}
	return nil
}

func (env *SpecEnv) resolveType(name string) (types.Type, error) {
	name = strings.TrimSpace(name)
	if strings.HasPrefix(name, "*") {
		t, err := env.resolveType(name[1:])
		if err != nil {
			return nil, err
		}
		return types.NewPointer(t), nil
	}
	if strings.HasPrefix(name, "[]") {
		t, err := env.resolveType(name[2:])
		if err != nil {
			return nil, err
		}
		return types.NewSlice(t), nil
	}
	if k := strings.Index(name, "."); k >= 0 {
		pkg := env.findPackage(name[:k])
		if pkg == nil {
			return nil, fmt.Errorf("unknown package %s", name[:k])
		}
		obj := pkg.Scope().Lookup(name[k+1:])
		if obj == nil {
			return nil, fmt.Errorf("unknown type %s", name)
		}
		return obj.Type(), nil
	}
	switch name {
	case "int":
		return types.Typ[types.Int], nil
	case "string":
		return types.Typ[types.String], nil
	case "bool":
		return types.Typ[types.Bool], nil
	case "rune":
		return types.Typ[types.Rune], nil
	case "byte":
		return types.Typ[types.Byte], nil
	case "error":
		return types.Universe.Lookup("error").Type(), nil
	}
	pkg := env.pkgOf()
	if pkg == nil {
		return nil, fmt.Errorf("unknown type %s", name)
	}
	obj := pkg.Scope().Lookup(name)
	if obj == nil {
		return nil, fmt.Errorf("unknown type %s", name)
	}
	return obj.Type(), nil
}

func (env *SpecEnv) selector(x *SExpr) (sval, error) {
	e := env.f.e
	// package-qualified name
	if x.Args[0].Op == "ident" {
		n := x.Args[0].Name
		_, isLocal := env.names[n]
		if _, b := env.bound[n]; !isLocal && !b {
			found := false
			if env.lookup != nil {
				_, _, found = env.lookup(n)
			}
			if !found {
				if pkg := env.findPackage(n); pkg != nil {
					if obj := pkg.Scope().Lookup(x.Name); obj != nil {
						return env.pkgObject(pkg, obj)
					}
					return sval{}, fmt.Errorf("unknown %s.%s", n, x.Name)
				}
			}
		}
	}
	v, err := env.eval(x.Args[0])
	if err != nil {
		return sval{}, err
	}
	if v.typ == nil {
		return sval{}, fmt.Errorf("selector .%s on untyped value", x.Name)
	}
	// pointer to struct: heap field
	if _, stT, ok := isStructPtr(v.typ); ok {
		return env.fieldOfRef(v.t, stT, x.Name)
	}
	if st, ok := v.typ.Underlying().(*types.Struct); ok {
		i := fieldIndex(v.typ, x.Name)
		if i < 0 {
			return sval{}, fmt.Errorf("no field %s in %s", x.Name, typeName(v.typ))
		}
		d := e.U.structDT(v.typ)
		return sval{mk(d.Sorts[i], d.Fields[i], v.t), st.Field(i).Type()}, nil
	}
	return sval{}, fmt.Errorf("selector .%s on %s", x.Name, typeName(v.typ))
}

func (env *SpecEnv) fieldOfRef(ref Term, stT types.Type, name string) (sval, error) {
	e := env.f.e
	i := fieldIndex(stT, name)
	if i < 0 {
		return sval{}, fmt.Errorf("no field %s in %s", name, typeName(stT))
	}
	ft := stT.Underlying().(*types.Struct).Field(i).Type()
	if op := opaqueStruct(ft); op != "" {
		// the abstract content of an embedded builder
		if op == "Builder" {
			return sval{sel(e.family(env.cur, "Builder", arraySort(SInt, SStr)), e.embRef(ref, stT, i), SStr), types.Typ[types.String]}, nil
		}
		return sval{e.embRef(ref, stT, i), types.NewPointer(ft)}, nil
	}
	if _, ok := ft.Underlying().(*types.Struct); ok {
		return sval{env.f.loadStruct(e.embRef(ref, stT, i), ft, env.cur), ft}, nil
	}
	fs := e.structFieldSort(stT, i)
	v := sel(e.family(env.cur, fieldFamily(stT, i), arraySort(SInt, fs)), ref, fs)
	if fs == SSlice && len(env.bound) == 0 {
		// values read in specifications obey the same representation invariants
		key := "specfact:" + v.S
		if e.names[key] == 0 {
			e.names[key] = 1
			e.assumeAbout(and(le(intLit(0), slLen(v)), le(slLen(v), slCap(v)), le(intLit(0), slOff(v))), v)
		}
	}
	if b, ok := ft.Underlying().(*types.Basic); ok && fs == SInt && b.Info()&types.IsInteger != 0 && len(env.bound) == 0 && (isUnsigned(ft) || intBits(ft) < 64) {
		// sized / unsigned integer fields hold values of their type
		key := "specfact:" + v.S
		if e.names[key] == 0 {
			e.names[key] = 1
			bits := intBits(ft)
			switch {
			case isUnsigned(ft) && bits < 64:
				e.assumeAbout(and(le(intLit(0), v), lt(v, intLit(1<<uint(bits)))), v)
			case isUnsigned(ft):
				e.assumeAbout(le(intLit(0), v), v)
			default:
				e.assumeAbout(and(le(intLit(-(1<<uint(bits-1))), v), lt(v, intLit(1<<uint(bits-1)))), v)
			}
		}
	}
	return sval{v, ft}, nil
}

func (env *SpecEnv) index(x *SExpr) (sval, error) {
	e := env.f.e
	a, err := env.eval(x.Args[0])
	if err != nil {
		return sval{}, err
	}
	i, err := env.eval(x.Args[1])
	if err != nil {
		return sval{}, err
	}
	switch a.t.Sort {
	case SStr:
		return sval{sByte(a.t, env.f.asInt(i.t)), types.Typ[types.Byte]}, nil
	case SSlice:
		et := a.typ.Underlying().(*types.Slice).Elem()
		es := e.U.sortOf(et, false)
		mem := e.family(env.cur, memFam(es), memSort(es))
		return sval{sel(sel(mem, slBase(a.t), arraySort(SInt, es)), add(slOff(a.t), env.f.asInt(i.t)), es), et}, nil
	}
	// SMT array valued spec term (ghost, or a whole heap family: heapfield(..)[ref])
	if strings.HasPrefix(string(a.t.Sort), "(Array ") {
		var et types.Type = types.Typ[types.Int]
		if a.typ != nil {
			et = a.typ // heapfield: the field's type
		}
		return sval{sel(a.t, i.t, elemOfArray(a.t.Sort)), et}, nil
	}
	if mt, ok := a.typ.Underlying().(*types.Map); ok {
		ks, vs := e.U.sortOf(mt.Key(), false), e.U.sortOf(mt.Elem(), false)
		if g := e.immutableMapOfTerm(a.t); g != nil {
			_, v := env.f.globalMapLookup(g, i.t, ks, vs, mt)
			return sval{v, mt.Elem()}, nil
		}
		valArr := e.family(env.cur, mapValFam(ks, vs), arraySort(SInt, arraySort(ks, vs)))
		return sval{sel(sel(valArr, a.t, arraySort(ks, vs)), i.t, vs), mt.Elem()}, nil
	}
	return sval{}, fmt.Errorf("index on %s", a.t.Sort)
}

func (env *SpecEnv) sliceExpr(x *SExpr) (sval, error) {
	a, err := env.eval(x.Args[0])
	if err != nil {
		return sval{}, err
	}
	lo := intLit(0)
	if x.Args[1] != nil {
		v, err := env.eval(x.Args[1])
		if err != nil {
			return sval{}, err
		}
		lo = env.f.asInt(v.t)
	}
	switch a.t.Sort {
	case SStr:
		hi := sLen(a.t)
		if x.Args[2] != nil {
			v, err := env.eval(x.Args[2])
			if err != nil {
				return sval{}, err
			}
			hi = env.f.asInt(v.t)
		}
		return sval{env.f.substr(a.t, lo, hi), a.typ}, nil
	case SSlice:
		hi := slLen(a.t)
		if x.Args[2] != nil {
			v, err := env.eval(x.Args[2])
			if err != nil {
				return sval{}, err
			}
			hi = env.f.asInt(v.t)
		}
		return sval{mkSlice(slBase(a.t), add(slOff(a.t), lo), sub(hi, lo), sub(slCap(a.t), lo)), a.typ}, nil
	}
	return sval{}, fmt.Errorf("slice of %s", a.t.Sort)
}

func (env *SpecEnv) unify(a, b sval) (sval, sval) {
	e := env.f.e
	fix := func(n sval, o sval) sval {
		if n.t.Sort == "nil" {
			if o.typ != nil {
				return sval{e.U.zeroOf(o.typ, o.t.Sort), o.typ}
			}
			return sval{intLit(0), o.typ}
		}
		if n.t.Sort == SInt && o.t.Sort == SBV {
			return sval{env.f.intToBV(n.t), o.typ}
		}
		return n
	}
	a = fix(a, b)
	b = fix(b, a)
	return a, b
}

func (env *SpecEnv) binary(x *SExpr) (sval, error) {
	boolT := types.Typ[types.Bool]
	switch x.Name {
	case "&&", "||", "==>", "<==>":
		a, err := env.evalBool(x.Args[0])
		if err != nil {
			return sval{}, err
		}
		b, err := env.evalBool(x.Args[1])
		if err != nil {
			return sval{}, err
		}
		switch x.Name {
		case "&&":
			return sval{and(a, b), boolT}, nil
		case "||":
			return sval{or(a, b), boolT}, nil
		case "==>":
			return sval{implies(a, b), boolT}, nil
		default:
			return sval{eq(a, b), boolT}, nil
		}
	}
	a, err := env.eval(x.Args[0])
	if err != nil {
		return sval{}, err
	}
	b, err := env.eval(x.Args[1])
	if err != nil {
		return sval{}, err
	}
	a, b = env.unify(a, b)
	f := env.f
	switch x.Name {
	case "==", "!=":
		var t Term
		if a.t.Sort != b.t.Sort {
			return sval{}, fmt.Errorf("comparison of %s with %s", a.t.Sort, b.t.Sort)
		}
		if a.t.Sort == SStr {
			t = f.strEq(a.t, b.t)
		} else {
			t = eq(a.t, b.t)
		}
		if x.Name == "!=" {
			t = not(t)
		}
		return sval{t, boolT}, nil
	case "++":
		return sval{sConcat(a.t, b.t), a.typ}, nil
	}
	if a.t.Sort == SStr && x.Name == "+" {
		return sval{sConcat(a.t, b.t), a.typ}, nil
	}
	if a.t.Sort == SBV {
		uns := a.typ != nil && (isUnsigned(a.typ) || isFlagType(a.typ))
		ops := map[string]string{"+": "bvadd", "-": "bvsub", "*": "bvmul", "&": "bvand", "|": "bvor", "^": "bvxor", "<<": "bvshl"}
		if op, ok := ops[x.Name]; ok {
			return sval{mk(SBV, op, a.t, b.t), a.typ}, nil
		}
		switch x.Name {
		case "/":
			if uns {
				return sval{mk(SBV, "bvudiv", a.t, b.t), a.typ}, nil
			}
			return sval{mk(SBV, "bvsdiv", a.t, b.t), a.typ}, nil
		case "%":
			if uns {
				return sval{mk(SBV, "bvurem", a.t, b.t), a.typ}, nil
			}
			return sval{mk(SBV, "bvsrem", a.t, b.t), a.typ}, nil
		case ">>":
			if uns {
				return sval{mk(SBV, "bvlshr", a.t, b.t), a.typ}, nil
			}
			return sval{mk(SBV, "bvashr", a.t, b.t), a.typ}, nil
		case "&^":
			return sval{mk(SBV, "bvand", a.t, mk(SBV, "bvnot", b.t)), a.typ}, nil
		case "<", "<=", ">", ">=":
			m := map[string]string{"<": "lt", "<=": "le", ">": "gt", ">=": "ge"}[x.Name]
			if uns {
				return sval{mk(SBool, "bvu"+m, a.t, b.t), boolT}, nil
			}
			return sval{mk(SBool, "bvs"+m, a.t, b.t), boolT}, nil
		}
	}
	if a.t.Sort == SInt && b.t.Sort == SInt {
		switch x.Name {
		case "+", "-", "*":
			return sval{mk(SInt, x.Name, a.t, b.t), a.typ}, nil
		case "/":
			return sval{app(SInt, "go.div", a.t, b.t), a.typ}, nil
		case "%":
			return sval{app(SInt, "go.rem", a.t, b.t), a.typ}, nil
		case "<", "<=", ">", ">=":
			return sval{mk(SBool, x.Name, a.t, b.t), boolT}, nil
		}
	}
	return sval{}, fmt.Errorf("operator %s on %s, %s", x.Name, a.t.Sort, b.t.Sort)
}

func (env *SpecEnv) call(x *SExpr) (sval, error) {
	e := env.f.e
	fnx := x.Args[0]
	args := x.Args[1:]
	if fnx.Op != "ident" {
		// pkg.Func(...)
		if fnx.Op == "sel" && fnx.Args[0].Op == "ident" {
			return env.callNamed(fnx.Args[0].Name+"."+fnx.Name, args)
		}
		return sval{}, fmt.Errorf("unsupported call")
	}
	switch fnx.Name {
	case "old":
		sub := *env
		sub.cur = env.old
		return sub.eval(args[0])
	case "len", "cap":
		v, err := env.eval(args[0])
		if err != nil {
			return sval{}, err
		}
		switch v.t.Sort {
		case SStr:
			return sval{sLen(v.t), types.Typ[types.Int]}, nil
		case SSlice:
			if fnx.Name == "cap" {
				return sval{slCap(v.t), types.Typ[types.Int]}, nil
			}
			return sval{slLen(v.t), types.Typ[types.Int]}, nil
		}
		return sval{}, fmt.Errorf("len of %s", v.t.Sort)
	case "has":
		m, err := env.eval(args[0])
		if err != nil {
			return sval{}, err
		}
		k, err := env.eval(args[1])
		if err != nil {
			return sval{}, err
		}
		mt, ok := m.typ.Underlying().(*types.Map)
		if !ok {
			return sval{}, fmt.Errorf("has() on non-map")
		}
		if g := e.immutableMapOfTerm(m.t); g != nil {
			h, _ := env.f.globalMapLookup(g, k.t, e.U.sortOf(mt.Key(), false), e.U.sortOf(mt.Elem(), false), mt)
			return sval{h, types.Typ[types.Bool]}, nil
		}
		ks, vs := e.U.sortOf(mt.Key(), false), e.U.sortOf(mt.Elem(), false)
		hasArr := e.family(env.cur, mapHasFam(ks, vs), arraySort(SInt, arraySort(ks, SBool)))
		return sval{and(not(eq(m.t, intLit(0))), sel(sel(hasArr, m.t, arraySort(ks, SBool)), k.t, SBool)), types.Typ[types.Bool]}, nil
	case "isvalueof":
		// isvalueof(m, v): v is the value stored under some live key of map m
		m, err := env.eval(args[0])
		if err != nil {
			return sval{}, err
		}
		v, err := env.eval(args[1])
		if err != nil {
			return sval{}, err
		}
		mt, ok := m.typ.Underlying().(*types.Map)
		if !ok {
			return sval{}, fmt.Errorf("isvalueof() on non-map")
		}
		ks, vs := e.U.sortOf(mt.Key(), false), e.U.sortOf(mt.Elem(), false)
		hasArr := sel(e.family(env.cur, mapHasFam(ks, vs), arraySort(SInt, arraySort(ks, SBool))), m.t, arraySort(ks, SBool))
		valArr := sel(e.family(env.cur, mapValFam(ks, vs), arraySort(SInt, arraySort(ks, vs))), m.t, arraySort(ks, vs))
		return sval{Term{fmt.Sprintf("(exists ((q.mk %s)) (and (select %s q.mk) (= (select %s q.mk) %s)))", ks, hasArr.S, valArr.S, v.t.S), SBool}, types.Typ[types.Bool]}, nil
	case "mapview":
		// the whole (has,val) view of a map, for frame-style equalities
		m, err := env.eval(args[0])
		if err != nil {
			return sval{}, err
		}
		mt := m.typ.Underlying().(*types.Map)
		ks, vs := e.U.sortOf(mt.Key(), false), e.U.sortOf(mt.Elem(), false)
		hasArr := e.family(env.cur, mapHasFam(ks, vs), arraySort(SInt, arraySort(ks, SBool)))
		return sval{sel(hasArr, m.t, arraySort(ks, SBool)), nil}, nil
	case "mapvals":
		m, err := env.eval(args[0])
		if err != nil {
			return sval{}, err
		}
		mt := m.typ.Underlying().(*types.Map)
		ks, vs := e.U.sortOf(mt.Key(), false), e.U.sortOf(mt.Elem(), false)
		valArr := e.family(env.cur, mapValFam(ks, vs), arraySort(SInt, arraySort(ks, vs)))
		return sval{sel(valArr, m.t, arraySort(ks, vs)), nil}, nil
	case "rune_at", "width_at":
		s, err := env.eval(args[0])
		if err != nil {
			return sval{}, err
		}
		i, err := env.eval(args[1])
		if err != nil {
			return sval{}, err
		}
		return sval{app(SInt, fnx.Name, s.t, i.t), types.Typ[types.Int]}, nil
	case "rune_count":
		s, err := env.eval(args[0])
		if err != nil {
			return sval{}, err
		}
		declareBoundary(e.U)
		return sval{app(SInt, "rune_count", s.t), types.Typ[types.Int]}, nil
	case "heapfield":
		// heapfield("pkg.Type.field"): the whole map object -> field value, for
		// postconditions of the form "no object's field changed"
		if len(args) == 1 && args[0].Op == "str" {
			parts := strings.Split(args[0].Name, ".")
			if len(parts) == 3 {
				t, err := env.resolveType(parts[0] + "." + parts[1])
				if err != nil {
					return sval{}, err
				}
				i := fieldIndex(t, parts[2])
				if i < 0 {
					return sval{}, fmt.Errorf("heapfield: no field %s", args[0].Name)
				}
				fs := e.structFieldSort(t, i)
				return sval{e.family(env.cur, fieldFamily(t, i), arraySort(SInt, fs)), t.Underlying().(*types.Struct).Field(i).Type()}, nil
			}
		}
		return sval{}, fmt.Errorf("heapfield: expected \"pkg.Type.field\"")
	case "failed":
		// ghost state of a bufio.Writer: some write or flush has failed (sticky)
		a, err := env.eval(args[0])
		if err != nil {
			return sval{}, err
		}
		return sval{sel(e.family(env.cur, "Writer.failed", arraySort(SInt, SBool)), a.t, SBool), types.Typ[types.Bool]}, nil
	case "fs_exists":
		// ghost file system: the path exists (os.Lstat succeeds)
		a, err := env.eval(args[0])
		if err != nil {
			return sval{}, err
		}
		e.U.declareFun("fs_exists", []Sort{SStr}, SBool)
		return sval{app(SBool, "fs_exists", a.t), types.Typ[types.Bool]}, nil
	case "rxsrc":
		a, err := env.eval(args[0])
		if err != nil {
			return sval{}, err
		}
		e.U.declareFun("rx.src", []Sort{SInt}, SStr)
		return sval{app(SStr, "rx.src", a.t), types.Typ[types.String]}, nil
	case "hasprefix":
		// hasprefix(s, "literal")
		a, err := env.eval(args[0])
		if err != nil {
			return sval{}, err
		}
		if args[1].Op != "str" {
			return sval{}, fmt.Errorf("hasprefix: second argument must be a string literal")
		}
		lit := args[1].Name
		conj := []Term{le(intLit(int64(len(lit))), sLen(a.t))}
		for k := 0; k < len(lit); k++ {
			conj = append(conj, eq(sByte(a.t, intLit(int64(k))), intLit(int64(lit[k]))))
		}
		return sval{and(conj...), types.Typ[types.Bool]}, nil
	case "boundary":
		// p is the byte offset of the start of a character of s (as range visits them)
		a, err := env.eval(args[0])
		if err != nil {
			return sval{}, err
		}
		b, err := env.eval(args[1])
		if err != nil {
			return sval{}, err
		}
		declareBoundary(e.U)
		return sval{app(SBool, "boundary", a.t, env.f.asInt(b.t)), types.Typ[types.Bool]}, nil
	case "containsrune":
		a, err := env.eval(args[0])
		if err != nil {
			return sval{}, err
		}
		b, err := env.eval(args[1])
		if err != nil {
			return sval{}, err
		}
		e.U.declareFun("str.contains.Rune", []Sort{SStr, SInt}, SBool)
		return sval{app(SBool, "str.contains.Rune", a.t, env.f.asInt(b.t)), types.Typ[types.Bool]}, nil
	case "strcontains":
		// strings.Contains(a, b) (the same uninterpreted function the code's call uses)
		a, err := env.eval(args[0])
		if err != nil {
			return sval{}, err
		}
		b, err := env.eval(args[1])
		if err != nil {
			return sval{}, err
		}
		e.U.declareFun("str.contains.Str", []Sort{SStr, SStr}, SBool)
		return sval{app(SBool, "str.contains.Str", a.t, b.t), types.Typ[types.Bool]}, nil
	case "parseint", "parseok":
		// strconv.ParseInt(s, 0, 0): the value of a C-style constant / whether it is one
		v, err := env.eval(args[0])
		if err != nil {
			return sval{}, err
		}
		e.U.declareFun("parseint.0", []Sort{SStr}, SBV)
		e.U.declareFun("parseint.ok.0", []Sort{SStr}, SBool)
		if fnx.Name == "parseok" {
			return sval{app(SBool, "parseint.ok.0", v.t), types.Typ[types.Bool]}, nil
		}
		return sval{app(SBV, "parseint.0", v.t), types.Typ[types.Int]}, nil
	case "itoa":
		v, err := env.eval(args[0])
		if err != nil {
			return sval{}, err
		}
		e.U.declareFun("itoa", []Sort{SInt}, SStr)
		return sval{app(SStr, "itoa", env.f.asInt(v.t)), types.Typ[types.String]}, nil
	case "atoi":
		v, err := env.eval(args[0])
		if err != nil {
			return sval{}, err
		}
		e.U.declareFun("atoi", []Sort{SStr}, SInt)
		return sval{app(SInt, "atoi", v.t), types.Typ[types.Int]}, nil
	case "store":
		a, err := env.eval(args[0])
		if err != nil {
			return sval{}, err
		}
		k, err := env.eval(args[1])
		if err != nil {
			return sval{}, err
		}
		v, err := env.eval(args[2])
		if err != nil {
			return sval{}, err
		}
		return sval{store(a.t, k.t, v.t), a.typ}, nil
	case "nsub":
		// number of capture groups of a compiled regular expression
		v, err := env.eval(args[0])
		if err != nil {
			return sval{}, err
		}
		e.U.declareFun("rx.nsub", []Sort{SInt}, SInt)
		return sval{app(SInt, "rx.nsub", v.t), types.Typ[types.Int]}, nil
	case "srcpos", "srclen", "lastread", "srcrune":
		// ghost source of the io.RuneScanner the parser reads (extern.go): the
		// runes it will deliver, how many have been delivered, and whether the
		// last operation was a successful ReadRune (so that UnreadRune is defined)
		e.U.declareConst("g.N", SInt)
		e.U.declareFun("g.src", []Sort{SInt}, SInt)
		switch fnx.Name {
		case "srcpos":
			e.famSort["g.k"] = SInt
			return sval{e.family(env.cur, "g.k", SInt), types.Typ[types.Int]}, nil
		case "srclen":
			return sval{Term{"g.N", SInt}, types.Typ[types.Int]}, nil
		case "lastread":
			e.famSort["g.lastread"] = SBool
			return sval{e.family(env.cur, "g.lastread", SBool), types.Typ[types.Bool]}, nil
		default:
			i, err := env.eval(args[0])
			if err != nil {
				return sval{}, err
			}
			return sval{app(SInt, "g.src", env.f.asInt(i.t)), types.Typ[types.Rune]}, nil
		}
	case "returnsmethod":
		// returnsmethod("name"): the value returned here (first result) is,
		// syntactically, the method value x.name of some x (a state function
		// handing over to the next one)
		if len(args) == 1 && args[0].Op == "str" && env.retInstr != nil && len(env.retInstr.Results) > 0 {
			rv := env.retInstr.Results[0]
			for {
				ct, ok := rv.(*ssa.ChangeType) // conversion to the named func type
				if !ok {
					break
				}
				rv = ct.X
			}
			if mc, ok := rv.(*ssa.MakeClosure); ok {
				if fn, ok := mc.Fn.(*ssa.Function); ok {
					if tgt := boundMethodTarget(fn); tgt != nil && tgt.Name() == args[0].Name {
						return sval{tTrue, types.Typ[types.Bool]}, nil
					}
				}
			}
			return sval{tFalse, types.Typ[types.Bool]}, nil
		}
		return sval{}, fmt.Errorf("returnsmethod: only in a postcondition, with a method name")
	case "closed":
		// ghost: the channel has been closed
		ch, err := env.eval(args[0])
		if err != nil {
			return sval{}, err
		}
		e.famSort["Chan.closed"] = arraySort(SInt, SBool)
		return sval{sel(e.family(env.cur, "Chan.closed", arraySort(SInt, SBool)), ch.t, SBool), types.Typ[types.Bool]}, nil
	case "chancap":
		// ghost: the capacity the channel was made with (0: every send waits for its receive)
		ch, err := env.eval(args[0])
		if err != nil {
			return sval{}, err
		}
		e.famSort["Chan.cap"] = arraySort(SInt, SInt)
		return sval{sel(e.family(env.f.entry, "Chan.cap", arraySort(SInt, SInt)), ch.t, SInt), types.Typ[types.Int]}, nil
	case "lockstate":
		// the ghost state of all mutexes (for "leaves every mutex as it found it")
		e.famSort["Mutex.locked"] = arraySort(SInt, SBool)
		return sval{e.family(env.cur, "Mutex.locked", arraySort(SInt, SBool)), nil}, nil
	case "locked":
		// ghost: the mutex is held by this thread of control
		m, err := env.eval(args[0])
		if err != nil {
			return sval{}, err
		}
		e.famSort["Mutex.locked"] = arraySort(SInt, SBool)
		return sval{sel(e.family(env.cur, "Mutex.locked", arraySort(SInt, SBool)), m.t, SBool), types.Typ[types.Bool]}, nil
	case "atomicval":
		// ghost: the value last stored in a sync/atomic.Value (nil before the first Store)
		v, err := env.eval(args[0])
		if err != nil {
			return sval{}, err
		}
		e.famSort["AtomicValue"] = arraySort(SInt, SIface)
		return sval{sel(e.family(env.cur, "AtomicValue", arraySort(SInt, SIface)), v.t, SIface), types.NewInterfaceType(nil, nil)}, nil
	case "rsrc", "rpos":
		// ghost state of a strings.Reader: the string it reads and how far it is
		r, err := env.eval(args[0])
		if err != nil {
			return sval{}, err
		}
		if fnx.Name == "rsrc" {
			return sval{sel(e.family(env.cur, "Reader.src", arraySort(SInt, SStr)), r.t, SStr), types.Typ[types.String]}, nil
		}
		return sval{sel(e.family(env.cur, "Reader.pos", arraySort(SInt, SInt)), r.t, SInt), types.Typ[types.Int]}, nil
	case "content":
		// abstract content of a strings.Builder reference
		b, err := env.eval(args[0])
		if err != nil {
			return sval{}, err
		}
		return sval{sel(e.family(env.cur, "Builder", arraySort(SInt, SStr)), b.t, SStr), types.Typ[types.String]}, nil
	case "int", "rune", "byte", "uint":
		v, err := env.eval(args[0])
		if err != nil {
			return sval{}, err
		}
		return sval{env.f.asInt(v.t), types.Typ[types.Int]}, nil
	case "bv":
		v, err := env.eval(args[0])
		if err != nil {
			return sval{}, err
		}
		if v.t.Sort == SInt {
			return sval{env.f.intToBV(v.t), types.Typ[types.Uint]}, nil
		}
		return v, nil
	case "ghost":
		// ghost("name"): current value of a ghost state variable
		if len(args) == 1 && args[0].Op == "str" {
			return sval{e.family(env.cur, "g."+args[0].Name, SInt), types.Typ[types.Int]}, nil
		}
	case "rangepos":
		// byte position of the string range iterator of the loop being specified
		if env.rangePos != nil {
			if t, ok := env.rangePos(); ok {
				return sval{t, types.Typ[types.Int]}, nil
			}
		}
		return sval{}, fmt.Errorf("rangepos(): no string range iterator in this loop")
	case "site":
		if len(args) == 1 && args[0].Op == "ident" {
			if t, ok := env.f.sites[args[0].Name]; ok {
				return sval{t, types.Typ[types.Bool]}, nil
			}
			return sval{tFalse, types.Typ[types.Bool]}, nil
		}
	case "at":
		// at(NAME, expr): expr evaluated in the state in which site NAME was reached
		if len(args) == 2 && args[0].Op == "ident" {
			st, ok := env.f.siteStates[args[0].Name]
			if !ok {
				return sval{}, fmt.Errorf("at: site %s was not reached before this point", args[0].Name)
			}
			sub := *env
			sub.cur = st
			if lk, ok := env.f.siteLookups[args[0].Name]; ok {
				sub.lookup = lk // source names denote their values at the site
			}
			return sub.eval(args[1])
		}
	case "after":
		// after(NAME, expr): expr evaluated in the state just after the call at site NAME returned
		if len(args) == 2 && args[0].Op == "ident" {
			st, ok := env.f.siteAfter[args[0].Name]
			if !ok {
				return sval{}, fmt.Errorf("after: the call at site %s has not returned before this point", args[0].Name)
			}
			sub := *env
			sub.cur = st
			return sub.eval(args[1])
		}
	case "siteret":
		// siteret(NAME): the (first) result of the call that is site NAME
		if len(args) == 1 && args[0].Op == "ident" {
			if sv, ok := env.f.siteRets[args[0].Name]; ok {
				return sv, nil
			}
			return sval{}, fmt.Errorf("siteret: site %s has no recorded result", args[0].Name)
		}
	case "sitearg":
		// sitearg(NAME, i): argument i of the call that is site NAME, as it was
		// when the call was reached (arbitrary if it was not)
		if len(args) == 2 && args[0].Op == "ident" && args[1].Op == "int" {
			key := args[0].Name + "." + args[1].Name
			if sv, ok := env.f.siteArgs[key]; ok {
				return sv, nil
			}
			return sval{}, fmt.Errorf("sitearg: site %s has no recorded argument %s", args[0].Name, args[1].Name)
		}
	}
	return env.callNamed(fnx.Name, args)
}

func (env *SpecEnv) callNamed(name string, args []*SExpr) (sval, error) {
	e := env.f.e
	sf := e.P.Specs.SpecFuncs[name]
	if sf == nil {
		// struct constructor: T(f1, f2, ...)
		if t, err := env.resolveType(name); err == nil {
			if st, ok := t.Underlying().(*types.Struct); ok && st.NumFields() == len(args) {
				d := e.U.structDT(t)
				var ts []Term
				for i, a := range args {
					v, err := env.eval(a)
					if err != nil {
						return sval{}, err
					}
					if v.t.Sort == "nil" {
						v.t = e.U.zeroOf(st.Field(i).Type(), d.Sorts[i])
					}
					if v.t.Sort != d.Sorts[i] {
						return sval{}, fmt.Errorf("%s: field %d has sort %s, want %s", name, i, v.t.Sort, d.Sorts[i])
					}
					ts = append(ts, v.t)
				}
				return sval{mk(Sort(d.Name), d.Ctor, ts...), t}, nil
			}
		}
		return sval{}, fmt.Errorf("unknown function %s", name)
	}
	if len(args) != len(sf.Params) {
		return sval{}, fmt.Errorf("%s: expected %d arguments", name, len(sf.Params))
	}
	var vals []sval
	for _, a := range args {
		v, err := env.eval(a)
		if err != nil {
			return sval{}, err
		}
		vals = append(vals, v)
	}
	if sf.Body != nil {
		sub := *env
		sub.names = map[string]Term{}
		sub.types = map[string]types.Type{}
		for k, v := range env.names {
			sub.names[k] = v
			sub.types[k] = env.types[k]
		}
		for i, p := range sf.Params {
			sub.names[p] = vals[i].t
			sub.types[p] = vals[i].typ
			if vals[i].typ == nil || sf.PTypes[i] != "" {
				if t, err := env.resolveType(sf.PTypes[i]); err == nil {
					sub.types[p] = t
				}
			}
		}
		sub.lookup = nil
		return sub.eval(sf.Body)
	}
	// uninterpreted
	var as []Sort
	var ts []Term
	for _, v := range vals {
		as = append(as, v.t.Sort)
		ts = append(ts, v.t)
	}
	rs := SInt
	var rt types.Type = types.Typ[types.Int]
	switch sf.Result {
	case "bool":
		rs, rt = SBool, types.Typ[types.Bool]
	case "string":
		rs, rt = SStr, types.Typ[types.String]
	case "int", "rune", "":
	default:
		if t, err := env.resolveType(sf.Result); err == nil {
			rs, rt = e.sortOf(t), t
		}
	}
	e.U.declareFun("spec."+name, as, rs)
	return sval{app(rs, "spec."+name, ts...), rt}, nil
}

// ---------- program-point name resolution ----------

// resolverAt builds a name resolver for the top of block blk (phis bound
// through phiEnv when given), searching dominating definitions.
func (f *Frame) resolverAt(blk *ssa.BasicBlock, phiEnv map[*ssa.Phi]Term, st *State) func(string) (Term, types.Type, bool) {
	return f.resolverAtPoint(blk, -1, phiEnv, st)
}

// resolverAtPoint resolves source names just before instruction idx of blk
// (idx < 0: at the top of the block, after its phis).
func (f *Frame) resolverAtPoint(blk *ssa.BasicBlock, idx int, phiEnv map[*ssa.Phi]Term, st *State) func(string) (Term, types.Type, bool) {
	return func(name string) (Term, types.Type, bool) {
		if idx >= 0 {
			if t, typ, ok := f.lastDefBefore(blk, idx, name, st); ok {
				return t, typ, true
			}
		}
		want := name
		ord := 1
		if k := strings.Index(name, "#"); k > 0 {
			want = name[:k]
			ord, _ = strconv.Atoi(name[k+1:])
			if ord == 0 {
				// name#0: the entry value of the parameter
				for _, p := range f.fn.Params {
					if p.Name() == want {
						if t, ok := f.vals[p]; ok {
							return t, p.Type(), true
						}
					}
				}
				return Term{}, nil, false
			}
		}
		// phis of this block
		seen := 0
		for _, in := range blk.Instrs {
			phi, ok := in.(*ssa.Phi)
			if !ok {
				break
			}
			if phi.Comment == want {
				seen++
				if seen == ord {
					if phiEnv != nil {
						if t, ok := phiEnv[phi]; ok {
							return t, phi.Type(), true
						}
					}
					if t, ok := f.vals[phi]; ok {
						return t, phi.Type(), true
					}
				}
			}
		}
		// dominating definitions
		for b := blk.Idom(); b != nil; b = b.Idom() {
			if t, typ, ok := f.lastDef(b, want, st); ok {
				return t, typ, true
			}
		}
		for _, p := range f.fn.Params {
			if p.Name() == want {
				if t, ok := f.vals[p]; ok {
					return t, p.Type(), true
				}
			}
		}
		for _, p := range f.fn.FreeVars {
			if p.Name() == want {
				if t, ok := f.vals[p]; ok {
					return t, p.Type(), true
				}
			}
		}
		if f.undefArbitrary {
			// a local of the function that has no value on this path (a
			// postcondition evaluated at an early return): an arbitrary value, so
			// the clause has to hold whatever it is
			for _, b := range f.fn.Blocks {
				for _, in := range b.Instrs {
					if x, ok := in.(*ssa.DebugRef); ok && !x.IsAddr && x.Object() != nil && x.Object().Name() == want {
						if v, isVar := x.Object().(*types.Var); isVar && !v.IsField() && (v.Pkg() == nil || v.Parent() != v.Pkg().Scope()) {
							t := f.e.declare(f.pfx+"undef."+want, f.e.sortOf(x.X.Type()))
							return t, x.X.Type(), true
						}
					}
				}
			}
		}
		return Term{}, nil, false
	}
}

// lastDef finds the value of source variable name at the end of block b.
func (f *Frame) lastDef(b *ssa.BasicBlock, name string, st *State) (Term, types.Type, bool) {
	return f.lastDefBefore(b, len(b.Instrs), name, st)
}

func (f *Frame) lastDefBefore(b *ssa.BasicBlock, upto int, name string, st *State) (Term, types.Type, bool) {
	for i := upto - 1; i >= 0; i-- {
		switch x := b.Instrs[i].(type) {
		case *ssa.DebugRef:
			if x.Object() == nil || x.Object().Name() != name {
				continue
			}
			if v, isVar := x.Object().(*types.Var); !isVar || v.IsField() {
				continue
			}
			if x.IsAddr {
				if lv, ok := f.lvals[x.X]; ok {
					return f.loadLV(lv, st), lv.typ, true
				}
				if t, ok := f.vals[x.X]; ok {
					// address-taken local: load its cell / struct
					pt := x.X.Type().Underlying().(*types.Pointer)
					if _, isS := pt.Elem().Underlying().(*types.Struct); isS {
						return f.loadStruct(t, pt.Elem(), st), pt.Elem(), true
					}
					lv := f.lvalOf(x.X, st)
					return f.loadLV(lv, st), pt.Elem(), true
				}
				continue
			}
			if c, ok := x.X.(*ssa.Const); ok {
				return f.constTerm(c), x.X.Type(), true
			}
			if t, ok := f.vals[x.X]; ok {
				return t, x.X.Type(), true
			}
		case *ssa.Phi:
			if x.Comment == name {
				if t, ok := f.vals[x]; ok {
					return t, x.Type(), true
				}
			}
		}
	}
	return Term{}, nil, false
}

// ---------- loop clauses ----------

func (f *Frame) loopSpec(li *loopInfo) *LoopSpec {
	if f.depth > 0 {
		// inlined callee: its own spec's loops
		sp := f.e.P.specFor(f.fn)
		return f.matchLoop(sp, li)
	}
	return f.matchLoop(f.e.Spec, li)
}

func (f *Frame) matchLoop(sp *FuncSpec, li *loopInfo) *LoopSpec {
	if sp == nil {
		return nil
	}
	hdr := f.loopHeaderText(li)
	for _, ls := range sp.Loops {
		if ls.Header == hdr || ls.Header == fmt.Sprintf("#%d", li.ordinal) {
			ls.Used = true
			return ls
		}
	}
	return nil
}

// loopHeaderText returns the source text of the loop statement's header.
func (f *Frame) loopHeaderText(li *loopInfo) string {
	return f.e.P.loopHeaderText(f.fn, li)
}

func (f *Frame) loopInvariants(li *loopInfo) []*Clause {
	var out []*Clause
	if ls := f.loopSpec(li); ls != nil {
		out = append(out, ls.Invariants...)
	}
	e := f.e
	key := loopKey{f.fn, li.header.Index}
	if e.houdini && e.firstRound {
		if e.candByLoop == nil {
			e.candByLoop = map[loopKey][]*Clause{}
		}
		if _, ok := e.candByLoop[key]; !ok {
			e.candByLoop[key] = e.loopCandidates(f, li)
		}
		return out
	}
	out = append(out, e.keptInv[key]...)
	return out
}

func (f *Frame) loopVariants(li *loopInfo) []*Clause {
	if ls := f.loopSpec(li); ls != nil {
		return ls.Decreases
	}
	return nil
}

// evalInvariant evaluates a loop clause at the header with the given phi
// bindings and state.
func (f *Frame) evalInvariant(cl *Clause, li *loopInfo, phiEnv map[*ssa.Phi]Term, st *State, _ interface{}) Term {
	if cl.Gen != nil {
		get := func(v ssa.Value) (Term, bool) {
			if phi, ok := v.(*ssa.Phi); ok && phiEnv != nil {
				if t, ok := phiEnv[phi]; ok {
					return t, true
				}
			}
			if c, ok := v.(*ssa.Const); ok {
				return f.constTerm(c), true
			}
			for fr := f; fr != nil; fr = fr.parent {
				if t, ok := fr.vals[v]; ok {
					return t, true
				}
			}
			return Term{}, false
		}
		t, ok := cl.Gen(f, get, st)
		if !ok {
			return Term{}
		}
		return t
	}
	env := &SpecEnv{f: f, names: map[string]Term{}, types: map[string]types.Type{}, cur: st, old: f.entry}
	env.lookup = f.resolverAt(li.header, phiEnv, st)
	env.rangePos = func() (Term, bool) {
		for _, in := range li.header.Instrs {
			if nx, ok := in.(*ssa.Next); ok && nx.IsString {
				if it, ok := f.vals[nx.Iter]; ok {
					return sel(f.e.family(st, "Iter.pos", arraySort(SInt, SInt)), it, SInt), true
				}
			}
		}
		return Term{}, false
	}
	v, err := env.eval(cl.Expr)
	if err != nil {
		f.e.specError("%s: loop clause %q: %v", f.e.Key, cl.Text, err)
		return Term{}
	}
	return v.t
}

func declareBoundary(u *Universe) {
	if _, ok := u.funs["boundary"]; ok {
		return
	}
	u.declareFun("boundary", []Sort{SStr, SInt}, SBool)
	u.axiom("(assert (forall ((s Str)) (! (boundary s 0) :pattern ((boundary s 0)))))", "boundary")
	u.axiom("(assert (forall ((s Str) (p Int)) (! (=> (and (boundary s p) (<= 0 p) (< p (slen s))) (boundary s (+ p (width_at s p)))) :pattern ((width_at s p)))))", "boundary")
	// characters of a prefix: none in the empty prefix, one more per character, all of them in the whole string
	u.axiom("(assert (forall ((s Str)) (! (= (rune_count (ssub s 0 0)) 0) :pattern ((ssub s 0 0)))))", "rune_count")
	u.axiom("(assert (forall ((s Str) (p Int)) (! (=> (and (boundary s p) (<= 0 p) (< p (slen s))) (= (rune_count (ssub s 0 (+ p (width_at s p)))) (+ (rune_count (ssub s 0 p)) 1))) :pattern ((rune_count (ssub s 0 p)) (width_at s p)))))", "rune_count")
	u.axiom("(assert (forall ((s Str)) (! (= (rune_count (ssub s 0 (slen s))) (rune_count s)) :pattern ((rune_count s)))))", "rune_count")
	u.axiom("(assert (forall ((s Str) (p Int) (q Int)) (! (=> (and (boundary s p) (< p q) (< q (+ p (width_at s p)))) (not (boundary s q))) :pattern ((boundary s q) (width_at s p)))))", "boundary")
}

// immutableMapOfTerm: the term is the (constant) value of a package-level map
// that only its initialiser writes; such maps are modelled by functions
// axiomatised from the initialiser (globalmap.go).
func (e *Enc) immutableMapOfTerm(t Term) *ssa.Global {
	if g := e.gmTerms[t.S]; g != nil {
		return g
	}
	if !strings.HasPrefix(t.S, "g.") {
		return nil
	}
	for _, sp := range e.P.SSAPkgs {
		for _, m := range sp.Members {
			if g, ok := m.(*ssa.Global); ok && "g."+sanitize(g.Pkg.Pkg.Name()+"."+g.Name()) == t.S {
				if _, isMap := g.Type().Underlying().(*types.Pointer).Elem().Underlying().(*types.Map); isMap {
					return immutableMapGlobal(e.P, g)
				}
			}
		}
	}
	return nil
}
