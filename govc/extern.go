package main

import (
	"fmt"
	"go/types"
	"sort"
	"strings"

	"golang.org/x/tools/go/ssa"
)

// Assumed contracts on dependencies (DESIGN Layer D).  Every model used by a
// run is recorded in usedExterns and listed in the evidence.

var usedExterns = map[string]bool{}

func noteExtern(name string) { usedExterns[name] = true }

func usedExternList() []string {
	var out []string
	for k := range usedExterns {
		out = append(out, k)
	}
	sort.Strings(out)
	return out
}

var builderFam = map[string]Sort{"Builder": arraySort(SInt, SStr)}

// externEffects: heap families an external function may write (nil: unknown).
func externEffects(name string) map[string]Sort {
	switch name {
	case "strings.(*Builder).WriteByte", "strings.(*Builder).WriteRune", "strings.(*Builder).WriteString", "strings.(*Builder).Reset", "strings.(*Builder).Write":
		return builderFam
	case "io.RuneScanner.ReadRune", "io.RuneScanner.UnreadRune":
		return map[string]Sort{"g.k": SInt, "g.lastread": SBool}
	case "strings.(*Reader).ReadRune", "strings.(*Reader).UnreadRune":
		return map[string]Sort{"Reader.pos": arraySort(SInt, SInt)}
	case "sync/atomic.AddUint32", "sync/atomic.StoreUint32":
		return map[string]Sort{"F.parser.heredoc.n": arraySort(SInt, SInt)}
	case "sync.(*Mutex).Lock", "sync.(*Mutex).Unlock":
		return map[string]Sort{"Mutex.locked": arraySort(SInt, SBool)}
	case "sync/atomic.(*Value).Store":
		return map[string]Sort{"AtomicValue": arraySort(SInt, SIface)}
	case "sort.Strings":
		return map[string]Sort{memFam(SStr): memSort(SStr)}
	case "bufio.(*Writer).Write", "bufio.(*Writer).WriteByte", "bufio.(*Writer).WriteString", "bufio.(*Writer).WriteRune", "bufio.(*Writer).Flush":
		return map[string]Sort{"Writer.failed": arraySort(SInt, SBool)}
	case "io.Writer.Write":
		return map[string]Sort{}
	}
	if externPure(name) {
		return map[string]Sort{}
	}
	return nil
}

// externPure: functions without effect on the modelled state.
func externPure(name string) bool {
	for _, p := range []string{"strings.", "strconv.", "unicode.", "unicode/utf8.", "fmt.", "errors.New", "os.Lstat", "os.Open", "os.Getpid", "os.Environ",
		"os.(*File).", "regexp.", "bytes.", "bufio.New", "sync/atomic.Load", "sync/atomic.(*Value).Load", "path/filepath.", "os/user.", "error.Error", "runtime.", "io.", "sort.", "math."} {
		if strings.HasPrefix(name, p) {
			return true
		}
	}
	return false
}

func (f *Frame) extern(c *cursor, site ssa.Instruction, name string, sig *types.Signature, argv []ssa.Value) []Term {
	e := f.e
	st := c.st
	noteExtern(name)
	arg := func(i int) Term { return f.val(argv[i]) }
	intArg := func(i int) Term { return f.asInt(f.val(argv[i])) }
	ret := func(t Term, typ types.Type) []Term { return []Term{f.fromInt(t, typ)} }
	fresh := func(hint string, s Sort) Term { return e.declare(f.pfx+hint, s) }
	res0 := func() types.Type { return sig.Results().At(0).Type() }
	builderRef := func(i int) Term { return f.val(argv[i]) }
	bget := func(ref Term) Term { return sel(e.family(st, "Builder", arraySort(SInt, SStr)), ref, SStr) }
	bset := func(ref, v Term) {
		e.setFamily(st, "Builder", store(e.family(st, "Builder", arraySort(SInt, SStr)), ref, v))
	}
	switch name {
	// ---- strings.Builder ----
	case "strings.(*Builder).WriteByte":
		ref := builderRef(0)
		b := intArg(1)
		bs := e.define(f.pfx+"bstr", byteStr(b))
		e.assume(and(eq(sLen(bs), intLit(1)), eq(sByte(bs, intLit(0)), b)), bs.S)
		bset(ref, f.concat(bget(ref), bs))
		return []Term{nilIface}
	case "strings.(*Builder).WriteRune":
		ref := builderRef(0)
		r := intArg(1)
		rs := e.define(f.pfx+"renc", runeEnc(r))
		f.runeEncFacts(rs, r)
		bset(ref, f.concat(bget(ref), rs))
		return []Term{f.fromInt(sLen(rs), sig.Results().At(0).Type()), nilIface}
	case "strings.(*Builder).WriteString":
		ref := builderRef(0)
		s := arg(1)
		bset(ref, f.concat(bget(ref), s))
		return []Term{f.fromInt(sLen(s), sig.Results().At(0).Type()), nilIface}
	case "strings.(*Builder).String":
		return []Term{bget(builderRef(0))}
	case "strings.(*Builder).Len":
		return ret(sLen(bget(builderRef(0))), res0())
	case "strings.(*Builder).Reset":
		bset(builderRef(0), e.U.strLit(""))
		return nil
	// ---- strings ----
	case "strings.IndexByte", "strings.IndexRune", "strings.IndexAny", "strings.Index":
		s := arg(0)
		i := fresh("idx", SInt)
		e.assume(and(le(intLit(-1), i), lt(i, sLen(s))), i.S)
		switch name {
		case "strings.IndexByte":
			b := intArg(1)
			e.assume(and(
				implies(ge(i, intLit(0)), eq(sByte(s, i), b)),
				Term{fmt.Sprintf("(forall ((j Int)) (! (=> (and (<= 0 j) (< j (ite (>= %s 0) %s (slen %s)))) (not (= (sbyte %s j) %s))) :pattern ((sbyte %s j))))", i.S, i.S, s.S, s.S, b.S, s.S), SBool},
			), i.S)
		case "strings.IndexRune":
			r := intArg(1)
			// ASCII runes are found byte-wise
			e.assume(implies(and(le(intLit(0), r), lt(r, intLit(128))), and(
				implies(ge(i, intLit(0)), eq(sByte(s, i), r)),
				Term{fmt.Sprintf("(forall ((j Int)) (! (=> (and (<= 0 j) (< j (ite (>= %s 0) %s (slen %s)))) (not (= (sbyte %s j) %s))) :pattern ((sbyte %s j))))", i.S, i.S, s.S, s.S, r.S, s.S), SBool},
			)), i.S)
		case "strings.IndexAny":
			chars := arg(1)
			e.U.declareFun("in_set", []Sort{SStr, SInt}, SBool)
			e.assume(and(
				implies(ge(i, intLit(0)), app(SBool, "in_set", chars, sByte(s, i))),
				Term{fmt.Sprintf("(forall ((j Int)) (! (=> (and (<= 0 j) (< j (ite (>= %s 0) %s (slen %s)))) (not (in_set %s (sbyte %s j)))) :pattern ((sbyte %s j))))", i.S, i.S, s.S, chars.S, s.S, s.S), SBool},
			), i.S)
			f.inSetFacts(chars)
		case "strings.Index":
			sub := arg(1)
			e.assume(implies(ge(i, intLit(0)), le(add(i, sLen(sub)), sLen(s))), i.S)
		}
		return ret(i, res0())
	case "strings.HasPrefix":
		s, p := arg(0), arg(1)
		r := fresh("hasprefix", SBool)
		conj := []Term{implies(r, le(sLen(p), sLen(s)))}
		if lit, ok := f.litValue(p); ok {
			var bs []Term
			bs = append(bs, le(intLit(int64(len(lit))), sLen(s)))
			for k := 0; k < len(lit); k++ {
				bs = append(bs, eq(sByte(s, intLit(int64(k))), intLit(int64(lit[k]))))
			}
			conj = append(conj, eq(r, and(bs...)))
		}
		e.assume(and(conj...), r.S)
		return []Term{r}
	case "strings.ContainsRune", "strings.Contains", "strings.ContainsAny":
		fn := map[string]string{"strings.ContainsRune": "str.contains.Rune", "strings.Contains": "str.contains.Str", "strings.ContainsAny": "str.contains.Any"}[name]
		a1 := arg(1)
		if name == "strings.ContainsRune" {
			a1 = intArg(1)
		}
		e.U.declareFun(fn, []Sort{SStr, a1.Sort}, SBool)
		return []Term{app(SBool, fn, arg(0), a1)}
	case "strings.TrimRight":
		s := arg(0)
		r := fresh("trimright", SStr)
		e.U.declareFun("in_set", []Sort{SStr, SInt}, SBool)
		cut := arg(1)
		e.assume(and(le(sLen(r), sLen(s)), eq(r, sSub(s, intLit(0), sLen(r))),
			implies(gt(sLen(r), intLit(0)), not(app(SBool, "in_set", cut, sByte(s, sub(sLen(r), intLit(1)))))),
			Term{fmt.Sprintf("(forall ((j Int)) (! (=> (and (<= (slen %s) j) (< j (slen %s))) (in_set %s (sbyte %s j))) :pattern ((sbyte %s j))))", r.S, s.S, cut.S, s.S, s.S), SBool},
		), r.S)
		f.inSetFacts(cut)
		return []Term{r}
	case "strings.Join":
		e.U.declareFun("str.join", []Sort{SSlice, SStr, SInt}, SStr)
		// depends on the slice contents: abstract value
		r := fresh("join", SStr)
		return []Term{r}
	case "strings.NewReader":
		ref := f.freshRef(f.pfx+"reader", st)
		e.setFamily(st, "Reader.src", store(e.family(st, "Reader.src", arraySort(SInt, SStr)), ref, arg(0)))
		e.setFamily(st, "Reader.pos", store(e.family(st, "Reader.pos", arraySort(SInt, SInt)), ref, intLit(0)))
		return []Term{ref}
	case "strings.(*Reader).Len":
		ref := arg(0)
		src := sel(e.family(st, "Reader.src", arraySort(SInt, SStr)), ref, SStr)
		pos := sel(e.family(st, "Reader.pos", arraySort(SInt, SInt)), ref, SInt)
		n := e.define(f.pfx+"rlen", sub(sLen(src), pos))
		e.assume(le(intLit(0), n), n.S)
		return ret(n, res0())
	case "strings.(*Reader).ReadRune":
		ref := arg(0)
		src := sel(e.family(st, "Reader.src", arraySort(SInt, SStr)), ref, SStr)
		posArr := e.family(st, "Reader.pos", arraySort(SInt, SInt))
		pos := e.define(f.pfx+"rpos", sel(posArr, ref, SInt))
		e.assume(and(le(intLit(0), pos), le(pos, sLen(src))), pos.S)
		ok := lt(pos, sLen(src))
		r := e.define(f.pfx+"rr", runeAt(src, pos))
		w := e.define(f.pfx+"rw", widthAt(src, pos))
		f.runeFacts(src, pos, r, w, ok)
		e.setFamily(st, "Reader.pos", store(posArr, ref, ite(ok, add(pos, w), pos)))
		eof := f.globalByName("io", "EOF", st)
		return []Term{f.fromInt(ite(ok, r, intLit(0)), sig.Results().At(0).Type()), f.fromInt(ite(ok, w, intLit(0)), sig.Results().At(1).Type()), ite(ok, nilIface, eof)}
	case "strings.(*Reader).UnreadRune":
		// position moves back by the width of the last rune read: abstract
		ref := arg(0)
		posArr := e.family(st, "Reader.pos", arraySort(SInt, SInt))
		np := fresh("unreadpos", SInt)
		e.assume(and(le(intLit(0), np), le(np, sel(posArr, ref, SInt))), np.S)
		e.setFamily(st, "Reader.pos", store(posArr, ref, np))
		return []Term{fresh("unreaderr", SIface)}
	// ---- strconv ----
	case "strconv.Itoa":
		e.U.declareFun("itoa", []Sort{SInt}, SStr)
		n := intArg(0)
		r := e.define(f.pfx+"itoa", app(SStr, "itoa", n))
		e.assume(ge(sLen(r), intLit(1)), r.S)
		e.U.axiom("(assert (forall ((a Int) (b Int)) (! (=> (= (itoa a) (itoa b)) (= a b)) :pattern ((itoa a) (itoa b)))))", "itoa")
		return []Term{r}
	case "strconv.Atoi":
		e.U.declareFun("atoi", []Sort{SStr}, SInt)
		e.U.declareFun("atoi.ok", []Sort{SStr}, SBool)
		s := arg(0)
		okk := app(SBool, "atoi.ok", s)
		er := fresh("atoierr", SIface)
		e.assume(eq(eq(er, nilIface), okk), er.S)
		// a non-empty string of decimal digits never converts to a negative number
		// (on overflow Atoi returns the largest int)
		e.assumeAbout(Term{fmt.Sprintf("(=> (and (>= (slen %s) 1) (forall ((j Int)) (=> (and (<= 0 j) (< j (slen %s))) (and (<= 48 (sbyte %s j)) (<= (sbyte %s j) 57))))) (>= (atoi %s) 0))", s.S, s.S, s.S, s.S, s.S), SBool}, s, er)
		return []Term{f.fromInt(app(SInt, "atoi", s), sig.Results().At(0).Type()), er}
	case "strconv.ParseInt":
		// ParseInt(s, 0, 0): value of the C-style constant, or an error
		s := arg(0)
		sfx := ""
		if b, ok := litInt(intArg(1)); ok {
			sfx = fmt.Sprintf(".%d", b)
		}
		e.U.declareFun("parseint"+sfx, []Sort{SStr}, SBV)
		e.U.declareFun("parseint.ok"+sfx, []Sort{SStr}, SBool)
		okk := app(SBool, "parseint.ok"+sfx, s)
		er := fresh("parseerr", SIface)
		e.assume(eq(eq(er, nilIface), okk), er.S)
		v := app(SBV, "parseint"+sfx, s)
		var out Term
		if e.sortOf(sig.Results().At(0).Type()) == SBV {
			out = ite(okk, v, fresh("parseint.bad", SBV))
		} else {
			out = ite(okk, f.bvToInt(v, false), fresh("parseint.bad", SInt))
		}
		return []Term{out, er}
	// ---- unicode / utf8 ----
	case "unicode.IsLetter", "unicode.IsDigit", "unicode.IsSpace", "unicode.IsUpper", "unicode.IsLower":
		fn := "uni." + name[8:]
		e.U.declareFun(fn, []Sort{SInt}, SBool)
		r := intArg(0)
		if name == "unicode.IsDigit" {
			e.U.axiom("(assert (forall ((r Int)) (! (=> (and (<= 0 r) (< r 128)) (= (uni.IsDigit r) (and (<= 48 r) (<= r 57)))) :pattern ((uni.IsDigit r)))))", fn)
		}
		if name == "unicode.IsLetter" {
			e.U.axiom("(assert (forall ((r Int)) (! (=> (and (<= 0 r) (< r 128)) (= (uni.IsLetter r) (or (and (<= 65 r) (<= r 90)) (and (<= 97 r) (<= r 122))))) :pattern ((uni.IsLetter r)))))", fn)
		}
		if name == "unicode.IsSpace" {
			e.U.axiom("(assert (forall ((r Int)) (! (=> (and (<= 0 r) (< r 128)) (= (uni.IsSpace r) (or (and (<= 9 r) (<= r 13)) (= r 32)))) :pattern ((uni.IsSpace r)))))", fn)
		}
		return []Term{app(SBool, fn, r)}
	case "unicode/utf8.DecodeRuneInString":
		s := arg(0)
		r := e.define(f.pfx+"dr", runeAt(s, intLit(0)))
		w := e.define(f.pfx+"dw", widthAt(s, intLit(0)))
		nonEmpty := gt(sLen(s), intLit(0))
		f.runeFacts(s, intLit(0), r, w, nonEmpty)
		e.U.axiom("(assert (forall ((s Str) (a Int)) (! (=> (and (<= 0 a) (< a (slen s))) (and (= (width_at (ssub s a (slen s)) 0) (width_at s a)) (= (rune_at (ssub s a (slen s)) 0) (rune_at s a)))) :pattern ((ssub s a (slen s))))))", "ssub")
		// a substring that runs to the end of its parent decodes like the parent
		return []Term{f.fromInt(ite(nonEmpty, r, intLit(65533)), sig.Results().At(0).Type()), f.fromInt(ite(nonEmpty, w, intLit(0)), sig.Results().At(1).Type())}
	case "unicode/utf8.RuneLen":
		e.U.declareFun("rune_len", []Sort{SInt}, SInt)
		r := intArg(0)
		v := e.define(f.pfx+"runelen", app(SInt, "rune_len", r))
		e.assume(and(le(intLit(-1), v), le(v, intLit(4)), not(eq(v, intLit(0))),
			implies(and(le(intLit(0), r), lt(r, intLit(128))), eq(v, intLit(1))),
			implies(eq(r, intLit(65533)), eq(v, intLit(3)))), v.S)
		return ret(v, res0())
	case "unicode/utf8.RuneCountInString":
		s := arg(0)
		v := e.define(f.pfx+"runecount", app(SInt, "rune_count", s))
		e.assume(and(le(intLit(0), v), le(v, sLen(s)), eq(eq(v, intLit(0)), eq(sLen(s), intLit(0)))), v.S)
		return ret(v, res0())
	// ---- os / misc ----
	case "os.Getpid":
		e.U.declareConst("os.pid", SInt)
		return ret(Term{"os.pid", SInt}, res0())
	case "os.Lstat", "os.Open":
		// ghost file system: success iff the path exists
		e.U.declareFun("fs_exists", []Sort{SStr}, SBool)
		p := arg(0)
		er := fresh("oserr", SIface)
		e.assume(eq(eq(er, nilIface), app(SBool, "fs_exists", p)), er.S)
		var r0 Term
		if name == "os.Open" {
			r0 = fresh("file", SInt)
			e.assume(implies(eq(er, nilIface), gt(r0, intLit(0))), r0.S)
		} else {
			r0 = fresh("fileinfo", SIface)
		}
		return []Term{r0, er}
	case "os.(*File).Close":
		return []Term{fresh("closeerr", SIface)}
	case "os.(*File).Readdirnames":
		r := fresh("names", SSlice)
		f.typeFacts(r, types.NewSlice(types.Typ[types.String]), st)
		er := fresh("readdirerr", SIface)
		// with n > 0: a non-empty result or an error
		n := intArg(1)
		e.assume(implies(and(gt(n, intLit(0)), eq(er, nilIface)), and(ge(slLen(r), intLit(1)), le(slLen(r), n))), r.S, er.S)
		return []Term{r, er}
	case "errors.New", "fmt.Errorf":
		r := fresh("newerr", SIface)
		e.assume(eq(ifTag(r), intLit(int64(e.U.typeTag("*errors.errorString")))), r.S)
		return []Term{r}
	case "fmt.Sprintf", "fmt.Sprint":
		return []Term{fresh("sprintf", SStr)}
	case "sort.Strings":
		s := arg(0)
		fam := memFam(SStr)
		mem := e.family(st, fam, memSort(SStr))
		nm := e.declare("h."+fam, memSort(SStr))
		e.assume(Term{fmt.Sprintf("(forall ((b Int)) (! (=> (not (= b %s)) (= (select %s b) (select %s b))) :pattern ((select %s b))))", slBase(s).S, nm.S, mem.S, nm.S), SBool}, nm.S)
		st.heap[fam] = nm
		return nil
	case "bytes.Repeat":
		cnt := intArg(1)
		f.guard(c, "repeat", site, ge(cnt, intLit(0)))
		r := fresh("repeat", SSlice)
		f.typeFacts(r, sig.Results().At(0).Type(), st)
		return []Term{r}
	case "strings.Repeat":
		cnt := intArg(1)
		f.guard(c, "repeat", site, ge(cnt, intLit(0)))
		return []Term{fresh("repeat", SStr)}
	case "bytes.NewReader", "bufio.NewReader":
		return []Term{f.freshRef(f.pfx+"rdr", st)}
	case "bufio.NewWriter":
		ref := f.freshRef(f.pfx+"bufw", st)
		e.setFamily(st, "Writer.failed", store(e.family(st, "Writer.failed", arraySort(SInt, SBool)), ref, tFalse))
		return []Term{ref}
	case "bufio.(*Writer).Write", "bufio.(*Writer).WriteByte", "bufio.(*Writer).WriteString", "bufio.(*Writer).WriteRune":
		// sticky error: a write may fail; once failed, stays failed
		ref := arg(0)
		arr := e.family(st, "Writer.failed", arraySort(SInt, SBool))
		fail := fresh("wfail", SBool)
		e.setFamily(st, "Writer.failed", store(arr, ref, or(sel(arr, ref, SBool), fail)))
		return f.freshResults(sig, st, "bufw")
	case "bufio.(*Writer).Flush":
		ref := arg(0)
		arr := e.family(st, "Writer.failed", arraySort(SInt, SBool))
		fail := fresh("ffail", SBool)
		failed := e.define(f.pfx+"failed", or(sel(arr, ref, SBool), fail))
		e.setFamily(st, "Writer.failed", store(arr, ref, failed))
		er := fresh("flusherr", SIface)
		e.assume(eq(eq(er, nilIface), not(failed)), er.S)
		return []Term{er}
	case "sync.(*Mutex).Lock", "sync.(*Mutex).Unlock":
		// ghost: the mutex is held by this thread of control.  Locking a mutex
		// that is held is a self-deadlock, unlocking one that is not is a fatal
		// error; what other goroutines do with the mutex is not modelled.
		m := arg(0)
		arr := e.family(st, "Mutex.locked", arraySort(SInt, SBool))
		held := sel(arr, m, SBool)
		if name == "sync.(*Mutex).Lock" {
			f.guard(c, "lock", site, not(held))
			e.setFamily(st, "Mutex.locked", store(arr, m, tTrue))
		} else {
			f.guard(c, "lock", site, held)
			e.setFamily(st, "Mutex.locked", store(arr, m, tFalse))
		}
		e.famSort["Mutex.locked"] = arraySort(SInt, SBool)
		return nil
	case "sync/atomic.LoadUint32":
		if lv, ok := f.lvals[argv[0]]; ok {
			return ret(f.loadLV(lv, st), res0())
		}
	case "sync/atomic.AddUint32":
		if lv, ok := f.lvals[argv[0]]; ok {
			d := intArg(1)
			old := f.loadLV(lv, st)
			// uint32 wrap-around
			nv := e.define(f.pfx+"atomicadd", app(SInt, "mod", add(old, d), Term{"4294967296", SInt}))
			f.storeLV(lv, nv, st)
			return ret(nv, res0())
		}
	case "sync/atomic.(*Value).Load":
		ref := arg(0)
		return []Term{sel(e.family(st, "AtomicValue", arraySort(SInt, SIface)), ref, SIface)}
	case "sync/atomic.(*Value).Store":
		ref := arg(0)
		e.setFamily(st, "AtomicValue", store(e.family(st, "AtomicValue", arraySort(SInt, SIface)), ref, arg(1)))
		return nil
	case "regexp.Compile":
		r := fresh("regexp", SInt)
		er := fresh("rxerr", SIface)
		e.assume(implies(eq(er, nilIface), gt(r, intLit(0))), r.S, er.S)
		// source text of the compiled expression
		e.U.declareFun("rx.src", []Sort{SInt}, SStr)
		e.assume(implies(eq(er, nilIface), eq(app(SStr, "rx.src", r), arg(0))), r.S)
		return []Term{r, er}
	case "regexp.(*Regexp).String":
		e.U.declareFun("rx.src", []Sort{SInt}, SStr)
		return []Term{app(SStr, "rx.src", arg(0))}
	case "regexp.(*Regexp).MatchString":
		return []Term{fresh("rxmatch", SBool)}
	case "regexp.(*Regexp).FindStringSubmatch":
		// nil, or 1+NumSubexp substrings of the subject; element 0 is a substring of s
		s := arg(1)
		r := fresh("submatch", SSlice)
		f.typeFacts(r, sig.Results().At(0).Type(), st)
		e.U.declareFun("rx.nsub", []Sort{SInt}, SInt)
		mem := e.family(st, memFam(SStr), memSort(SStr))
		el := func(i int64) Term {
			return sel(sel(mem, slBase(r), arraySort(SInt, SStr)), add(slOff(r), intLit(i)), SStr)
		}
		e.assume(or(eq(r, nilSlice), and(gt(slBase(r), intLit(0)), eq(slLen(r), add(intLit(1), app(SInt, "rx.nsub", arg(0)))),
			le(sLen(el(0)), sLen(s)), le(sLen(el(1)), sLen(s)))), r.S)
		e.assume(ge(app(SInt, "rx.nsub", arg(0)), intLit(0)), r.S)
		return []Term{r}
	case "path/filepath.ToSlash":
		return []Term{arg(0)} // identity on unix
	case "os/user.Lookup":
		r := fresh("user", SInt)
		er := fresh("usererr", SIface)
		e.assume(implies(eq(er, nilIface), gt(r, intLit(0))), r.S, er.S)
		return []Term{r, er}
	case "os.Environ":
		r := fresh("environ", SSlice)
		f.typeFacts(r, sig.Results().At(0).Type(), st)
		return []Term{r}
	}
	if externPure(name) {
		e.warn("%s: external %s has no model: result unconstrained", f.fn.Name(), name)
		return f.freshResults(sig, st, sanitize(name))
	}
	var cc *ssa.CallCommon
	switch x := site.(type) {
	case *ssa.Call:
		cc = &x.Call
	case *ssa.Defer:
		cc = &x.Call
	}
	if cc != nil {
		fams, all := e.P.unknownExternEffects(e.U, cc)
		e.warn("%s: unmodelled library function %s: result unconstrained, arguments' memory havocked", f.fn.Name(), name)
		e.havoc(st, fams, all)
		return f.freshResults(sig, st, sanitize(name))
	}
	e.warn("%s: unknown external %s: everything havocked", f.fn.Name(), name)
	e.havoc(st, nil, true)
	return f.freshResults(sig, st, sanitize(name))
}

func (f *Frame) litValue(t Term) (string, bool) {
	for s, n := range f.e.U.strLits {
		if n == t.S {
			return s, true
		}
	}
	return "", false
}

// inSetFacts ties in_set(lit, b) to the bytes of a literal character set.
func (f *Frame) inSetFacts(chars Term) {
	e := f.e
	lit, ok := f.litValue(chars)
	if !ok {
		return
	}
	key := "inset:" + chars.S
	if e.U.consts[key] != "" {
		return
	}
	e.U.consts[key] = "done"
	var alts []string
	for i := 0; i < len(lit); i++ {
		alts = append(alts, fmt.Sprintf("(= b %d)", lit[i]))
	}
	body := "false"
	if len(alts) == 1 {
		body = alts[0]
	} else if len(alts) > 1 {
		body = "(or " + strings.Join(alts, " ") + ")"
	}
	e.U.axiom(fmt.Sprintf("(assert (forall ((b Int)) (! (= (in_set %s b) %s) :pattern ((in_set %s b)))))", chars.S, body, chars.S), chars.S)
}

func (f *Frame) globalByName(pkg, name string, st *State) Term {
	for _, sp := range f.e.P.SSA.AllPackages() {
		if sp.Pkg.Name() == pkg && (sp.Pkg.Path() == pkg || strings.HasSuffix(sp.Pkg.Path(), "/"+pkg)) {
			if g, ok := sp.Members[name].(*ssa.Global); ok {
				return f.loadGlobal(g, st)
			}
		}
	}
	f.e.fail("global %s.%s not found", pkg, name)
	return nilIface
}

// externInvoke models interface methods of library interfaces.
func (f *Frame) externInvoke(c *cursor, site ssa.Instruction, name string, call *ssa.CallCommon, recv Term) ([]Term, bool) {
	e := f.e
	st := c.st
	sig := call.Signature()
	switch name {
	case "error.Error":
		noteExtern(name)
		e.U.declareFun("err.text", []Sort{SIface}, SStr)
		return []Term{app(SStr, "err.text", recv)}, true
	case "io.RuneScanner.ReadRune":
		noteExtern(name)
		// ghost source: src (runes), cursor k, length N
		e.U.declareConst("g.N", SInt)
		e.U.declareFun("g.src", []Sort{SInt}, SInt)
		k := e.family(st, "g.k", SInt)
		okc := e.declare(f.pfx+"read.ok", SBool)
		er := e.declare(f.pfx+"read.err", SIface)
		eof := f.globalByName("io", "EOF", st)
		N := Term{"g.N", SInt}
		r := e.define(f.pfx+"read.r", app(SInt, "g.src", k))
		// success returns src[k] and advances; EOF exactly at the end; any other error leaves k
		e.assume(and(
			eq(okc, eq(er, nilIface)),
			implies(okc, lt(k, N)),
			implies(eq(er, eof), ge(k, N)),
			le(intLit(0), k), le(k, N),
		), okc.S, er.S)
		e.assume(and(le(intLit(0), r), le(r, intLit(0x10FFFF))), r.S)
		st.heap["g.k"] = e.define("g.k", ite(okc, add(k, intLit(1)), k))
		e.famSort["g.k"] = SInt
		st.heap["g.lastread"] = e.define("g.lastread", okc)
		e.famSort["g.lastread"] = SBool
		w := e.declare(f.pfx+"read.w", SInt)
		e.assume(and(le(intLit(0), w), le(w, intLit(4))), w.S)
		rr := e.define(f.pfx+"read.rune", ite(okc, r, e.declare(f.pfx+"read.junk", SInt)))
		return []Term{f.fromInt(rr, sig.Results().At(0).Type()), f.fromInt(w, sig.Results().At(1).Type()), er}, true
	case "io.RuneScanner.UnreadRune":
		noteExtern(name)
		k := e.family(st, "g.k", SInt)
		last := e.family(st, "g.lastread", SBool)
		// after a successful ReadRune the cursor moves back by one; otherwise unspecified (error)
		nk := e.declare("g.k", SInt)
		e.assume(and(implies(last, eq(nk, sub(k, intLit(1)))), implies(not(last), eq(nk, k))), nk.S)
		st.heap["g.k"] = nk
		st.heap["g.lastread"] = tFalse
		return []Term{e.declare(f.pfx+"unread.err", SIface)}, true
	case "io.Writer.Write":
		noteExtern(name)
		return f.freshResults(sig, st, "write"), true
	}
	return nil, false
}
