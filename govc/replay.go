package main

import (
	"bytes"
	"context"
	"encoding/json"
	"go/ast"
	goparser "go/parser"
	"go/token"
	"os"
	"os/exec"
	"path/filepath"
	"regexp"
	"sort"
	"strconv"
	"strings"
	"time"
)

// ReplayResult describes the attempt to reproduce a failed obligation on the real code.
type ReplayResult struct {
	Attempted bool    `json:"attempted"`
	Confirmed bool    `json:"confirmed"`
	Note      string  `json:"note"`
	Driver    string  `json:"driver,omitempty"`
	Input     string  `json:"input,omitempty"`
	Panic     string  `json:"panic,omitempty"`
	Godebug   string  `json:"godebug,omitempty"`
	Command   string  `json:"command,omitempty"`
	Output    string  `json:"output,omitempty"`
	Seconds   float64 `json:"seconds,omitempty"`
}

// A failed no-panic obligation names a source line.  The solver's model of a
// heap-shaped input (syntax trees, lexer states) is not turned into a Go value;
// instead the real code is driven through the public entry points of the
// obligation's package over a systematic corpus (every string literal of the
// repository's own tests plus all short sequences over an alphabet of shell
// tokens), and a panic whose stack passes through that line is the failing
// input.  The harness is an external test injected with `go test -overlay`;
// nothing is written to /repo and the scratch directory is removed.

var replayKinds = map[string]bool{"bounds": true, "slice": true, "nil": true, "assert": true, "div": true, "shift": true, "nilmap": true, "make": true, "repeat": true, "panic": true}

func tryReplay(P *Program, o *Oblig) *ReplayResult { return replayObligation(P, o) }

func replayObligation(P *Program, o *Oblig) *ReplayResult {
	if o == nil || !replayKinds[o.Kind] {
		return &ReplayResult{Attempted: false, Note: "replay is implemented for no-panic obligations (a panic through the obligation's source line is searched for); this obligation is a contract clause without a run-time oracle"}
	}
	// "pkg/file.go:line"
	m := regexp.MustCompile(`^([a-z]+)/([A-Za-z0-9_.]+\.go):(\d+)`).FindStringSubmatch(o.Pos)
	if m == nil {
		return &ReplayResult{Attempted: false, Note: "obligation has no source line in the repository (" + o.Pos + ")"}
	}
	pkg, file, line := m[1], m[2], m[3]
	if strings.HasPrefix(file, "zz_verif_") {
		return &ReplayResult{Attempted: false, Note: "obligation lies in a grammar action extracted for the run; its line does not exist in the compiled file"}
	}
	want := pkg + "/" + file + ":" + line
	start := time.Now()
	scratch, err := os.MkdirTemp("", "govc-replay-")
	if err != nil {
		return &ReplayResult{Attempted: false, Note: "no scratch directory: " + err.Error()}
	}
	defer os.RemoveAll(scratch)
	corpus := replayCorpus(P.Repo)
	cdata, _ := json.Marshal(corpus)
	os.WriteFile(filepath.Join(scratch, "corpus.json"), cdata, 0o644)
	// drivers to try, most specific first
	drivers := map[string][]string{
		"parser":  {"parser"},
		"ast":     {"ast"},
		"printer": {"printer"},
		"pattern": {"pattern"},
		"interp":  {"interp"},
	}[pkg]
	if drivers == nil {
		return &ReplayResult{Attempted: false, Note: "no driver for package " + pkg}
	}
	var last *ReplayResult
	for _, d := range drivers {
		for _, gd := range []string{"", "panicnil=0"} {
			r := runReplayDriver(P.Repo, scratch, d, want, gd)
			r.Seconds = time.Since(start).Seconds()
			if r.Confirmed {
				return r
			}
			last = r
			if o.Kind != "panic" {
				break // the panicnil setting only matters for explicit panics
			}
		}
	}
	return last
}

func runReplayDriver(repo, scratch, driver, want, godebug string) *ReplayResult {
	src := replayDriverSource(driver)
	tf := filepath.Join(scratch, driver+"_replay_test.go")
	os.WriteFile(tf, []byte(src), 0o644)
	ov := map[string]map[string]string{"Replace": {filepath.Join(repo, driver, "zz_verif_replay_test.go"): tf}}
	ovd, _ := json.Marshal(ov)
	ovf := filepath.Join(scratch, "overlay-"+driver+".json")
	os.WriteFile(ovf, ovd, 0o644)
	ctx, cancel := context.WithTimeout(context.Background(), 240*time.Second)
	defer cancel()
	args := []string{"test", "-overlay", ovf, "-vet=off", "-count=1", "-timeout", "200s", "-v", "-run", "TestVerifReplay", "./" + driver + "/"}
	cmd := exec.CommandContext(ctx, "go", args...)
	cmd.Dir = repo
	env := append(os.Environ(), "GOFLAGS=-mod=mod", "GOPROXY=off", "GOSUMDB=off", "GOTOOLCHAIN=local",
		"VERIF_REPLAY_CORPUS="+filepath.Join(scratch, "corpus.json"), "VERIF_REPLAY_WANT="+want, "VERIF_REPLAY_TMP="+scratch)
	if godebug != "" {
		env = append(env, "GODEBUG="+godebug)
	}
	cmd.Env = env
	var out bytes.Buffer
	cmd.Stdout = &out
	cmd.Stderr = &out
	_ = cmd.Run()
	text := out.String()
	res := &ReplayResult{Attempted: true, Driver: driver + " driver (external test injected with go test -overlay)", Godebug: godebug,
		Command: "cd " + repo + " && go " + strings.Join(args, " ")}
	// a recovered panic through the wanted line
	for _, l := range strings.Split(text, "\n") {
		if strings.HasPrefix(l, "REPLAY-HIT ") {
			var h struct{ Input, Panic string }
			if json.Unmarshal([]byte(l[len("REPLAY-HIT "):]), &h) == nil {
				res.Confirmed = true
				res.Input = h.Input
				res.Panic = h.Panic
				res.Note = "panic through " + want + " reproduced on the real code"
				return res
			}
		}
	}
	// a crash of the test binary (panic in a goroutine the driver cannot recover from)
	if strings.Contains(text, "\npanic: ") || strings.HasPrefix(text, "panic: ") {
		if strings.Contains(text, want) {
			lastIn := ""
			for _, l := range strings.Split(text, "\n") {
				if strings.HasPrefix(l, "REPLAY-INPUT ") {
					lastIn = l[len("REPLAY-INPUT "):]
				}
			}
			if s, err := strconv.Unquote(lastIn); err == nil {
				lastIn = s
			}
			res.Confirmed = true
			res.Input = lastIn
			k := strings.Index(text, "panic: ")
			res.Panic = truncate(text[k:], 600)
			res.Note = "the test process was brought down by a panic through " + want + " (last input announced before the crash)"
			return res
		}
	}
	n := ""
	for _, l := range strings.Split(text, "\n") {
		if strings.HasPrefix(l, "REPLAY-DONE ") {
			n = l[len("REPLAY-DONE "):]
		}
	}
	res.Note = "no input of the corpus panics through " + want + " (" + n + ")"
	res.Output = truncate(text, 1500)
	return res
}

// replayCorpus: the string literals of the repository's tests plus short
// sequences over an alphabet of shell tokens.
func replayCorpus(repo string) map[string][]string {
	seen := map[string]bool{}
	var lits []string
	add := func(s string) {
		if len(s) <= 200 && !seen[s] {
			seen[s] = true
			lits = append(lits, s)
		}
	}
	fset := token.NewFileSet()
	files, _ := filepath.Glob(filepath.Join(repo, "*", "*_test.go"))
	sort.Strings(files)
	for _, f := range files {
		af, err := goparser.ParseFile(fset, f, nil, 0)
		if err != nil {
			continue
		}
		ast.Inspect(af, func(n ast.Node) bool {
			if bl, ok := n.(*ast.BasicLit); ok && bl.Kind == token.STRING {
				if s, err := strconv.Unquote(bl.Value); err == nil {
					add(s)
				}
			}
			return true
		})
	}
	shell := []string{"a", "c", "h", " ", "\n", ";", "&", "|", "(", ")", "<", ">", "<<", "<<-", "-", "'", "\"", "\\", "$", "${", "}", "{", "`", "#", "=", "~", "*", "?", "[", "]", ":", "%", "+", "!", "0", "1", "é", "\xff",
		"if ", "then ", "fi", "for ", "in ", "do ", "done", "case ", "esac", "while ", "E\n", "x=", "$x", "$((", "))", "$(", "/"}
	var seqs []string
	for _, a := range shell {
		seqs = append(seqs, a)
		for _, b := range shell {
			seqs = append(seqs, a+b)
		}
	}
	// length three over a smaller alphabet
	small := []string{"a", " ", "\n", ";", "&", "|", "(", ")", "<<", "'", "\"", "\\", "$", "${", "}", "`", "#", "=", "E\n", "$((", "))", "$(", "é"}
	for _, a := range small {
		for _, b := range small {
			for _, c := range small {
				seqs = append(seqs, a+b+c)
			}
		}
	}
	arith := []string{"1", "0", "x", "e", "9223372036854775807", "-", "+", "~", "!", "*", "/", "%", "<<", ">>", "<", "<=", "==", "!=", "&", "^", "|", "&&", "||", "?", ":", "=", "+=", "/=", "%=", "<<=", "++", "--", "(", ")", "08", "0x", " "}
	var ar []string
	for _, a := range arith {
		ar = append(ar, a)
		for _, b := range arith {
			ar = append(ar, a+b)
			for _, c := range []string{"1", "0", "x", ")", "-1", "++"} {
				ar = append(ar, a+b+c)
			}
		}
	}
	pat := []string{"a", "b", "*", "?", "[", "]", "!", "^", "-", "\\", "/", ".", "é", "[:alpha:]", "[.", "[=", "[:", ":]", "\xff", "\n"}
	var ps []string
	for _, a := range pat {
		ps = append(ps, a)
		for _, b := range pat {
			ps = append(ps, a+b)
			for _, c := range pat {
				ps = append(ps, a+b+c)
			}
		}
	}
	return map[string][]string{"lits": lits, "shell": seqs, "arith": ar, "pattern": ps,
		"subjects": {"", "a", "ab", "ba", "a/b", ".a", "é", "a\nb", "\xff", "a\xffb", "[", "\\", "aé"}}
}

func replayDriverSource(pkg string) string {
	common := `
import (
	"encoding/json"
	"fmt"
	"os"
	"reflect"
	"runtime/debug"
	"strings"
	"testing"
	"time"
` + map[string]string{
		"parser":  "\t\"github.com/hattya/go.sh/ast\"\n\t\"github.com/hattya/go.sh/interp\"\n\t\"github.com/hattya/go.sh/parser\"\n",
		"ast":     "\t\"github.com/hattya/go.sh/ast\"\n\t\"github.com/hattya/go.sh/interp\"\n\t\"github.com/hattya/go.sh/parser\"\n",
		"printer": "\t\"github.com/hattya/go.sh/ast\"\n\t\"github.com/hattya/go.sh/interp\"\n\t\"github.com/hattya/go.sh/parser\"\n\t\"github.com/hattya/go.sh/printer\"\n",
		"interp":  "\t\"github.com/hattya/go.sh/ast\"\n\t\"github.com/hattya/go.sh/interp\"\n\t\"github.com/hattya/go.sh/parser\"\n",
		"pattern": "\t\"github.com/hattya/go.sh/pattern\"\n",
	}[pkg] + `)

var _ = reflect.TypeOf
var _ = strings.Contains
var _ = time.Second

type corpusT struct {
	Lits, Shell, Arith, Pattern, Subjects []string
}

var want = os.Getenv("VERIF_REPLAY_WANT")
var cases int

func loadCorpus(t *testing.T) corpusT {
	var c corpusT
	d, err := os.ReadFile(os.Getenv("VERIF_REPLAY_CORPUS"))
	if err != nil {
		t.Skip("no corpus")
	}
	var m map[string][]string
	json.Unmarshal(d, &m)
	c.Lits, c.Shell, c.Arith, c.Pattern, c.Subjects = m["lits"], m["shell"], m["arith"], m["pattern"], m["subjects"]
	return c
}

// try runs f; a panic whose stack passes through the wanted line ends the search.
func try(input string, f func()) (hit bool) {
	cases++
	defer func() {
		if e := recover(); e != nil {
			st := string(debug.Stack())
			if strings.Contains(st, want) {
				b, _ := json.Marshal(map[string]string{"Input": input, "Panic": fmt.Sprint(e)})
				fmt.Fprintf(os.Stderr, "REPLAY-HIT %s\n", b)
				hit = true
			}
		}
	}()
	f()
	return false
}

func done() { fmt.Fprintf(os.Stderr, "REPLAY-DONE %d cases\n", cases) }
`
	parse := `
// parseAll parses src under a watchdog; the lexer goroutine cannot be recovered
// from, so the input is announced first (the last one announced is the culprit
// if the process dies).
func parseAll(src string, env *interp.ExecEnv) []ast.Command {
	fmt.Fprintf(os.Stderr, "REPLAY-INPUT %q\n", src)
	type res struct{ cmds []ast.Command }
	ch := make(chan res, 1)
	go func() {
		cmds, _, _ := parser.ParseCommands(env, "replay", src)
		ch <- res{cmds}
	}()
	select {
	case r := <-ch:
		return r.cmds
	case <-time.After(2 * time.Second):
		return nil
	}
}

func sources(c corpusT) []string {
	var out []string
	out = append(out, c.Lits...)
	out = append(out, c.Shell...)
	return out
}

func aliasEnv() *interp.ExecEnv {
	env := interp.NewExecEnv("sh")
	env.Aliases["a"] = "b "
	env.Aliases["b"] = "a"
	env.Aliases["if"] = "x"
	env.Aliases["é"] = "é "
	env.Aliases["c"] = "echo $(date) $((1+2)) "
	env.Aliases["h"] = "cat <<E"
	return env
}

// walk visits every value reachable from v that implements ast.Node.
func walk(v reflect.Value, f func(ast.Node), depth int) {
	if depth > 40 || !v.IsValid() {
		return
	}
	switch v.Kind() {
	case reflect.Interface, reflect.Ptr:
		if v.IsNil() {
			return
		}
		if v.CanInterface() {
			if n, ok := v.Interface().(ast.Node); ok && v.Kind() == reflect.Ptr {
				f(n)
			}
		}
		walk(v.Elem(), f, depth+1)
	case reflect.Slice:
		if v.CanInterface() {
			if n, ok := v.Interface().(ast.Node); ok && v.Len() > 0 {
				f(n)
			}
		}
		for i := 0; i < v.Len(); i++ {
			walk(v.Index(i), f, depth+1)
		}
	case reflect.Struct:
		for i := 0; i < v.NumField(); i++ {
			if v.Type().Field(i).PkgPath == "" {
				walk(v.Field(i), f, depth+1)
			}
		}
	}
}
`
	switch pkg {
	case "parser":
		return "package parser_test\n" + common + parse + `
func TestVerifReplay(t *testing.T) {
	c := loadCorpus(t)
	defer done()
	for _, src := range sources(c) {
		if try(src, func() { parseAll(src, nil) }) {
			return
		}
		if try("aliases a='b ' b=a if=x; "+src, func() { parseAll(src, aliasEnv()) }) {
			return
		}
	}
}
`
	case "ast":
		return "package ast_test\n" + common + parse + `
func TestVerifReplay(t *testing.T) {
	c := loadCorpus(t)
	defer done()
	for _, src := range sources(c) {
		cmds := parseAll(src, nil)
		hit := false
		for _, cmd := range cmds {
			walk(reflect.ValueOf(cmd), func(n ast.Node) {
				if !hit && try(src, func() { n.Pos(); n.End() }) {
					hit = true
				}
			}, 0)
		}
		if hit {
			return
		}
	}
}
`
	case "printer":
		return "package printer_test\n" + common + parse + `
type sink struct{}

func (sink) Write(p []byte) (int, error) { return len(p), nil }

func TestVerifReplay(t *testing.T) {
	c := loadCorpus(t)
	defer done()
	cfgs := []printer.Config{{}, {Indent: printer.Space, Width: 8}, {Indent: printer.Space, Width: 300}, {Redir: printer.Space, Assign: printer.Space, Case: true, Do: printer.Newline, Then: printer.Newline}}
	for _, src := range sources(c) {
		cmds := parseAll(src, nil)
		for _, cmd := range cmds {
			for i := range cfgs {
				cfg := cfgs[i]
				if try(fmt.Sprintf("%q with printer.Config %+v", src, cfg), func() { cfg.Fprint(sink{}, cmd) }) {
					return
				}
			}
			hit := false
			walk(reflect.ValueOf(cmd), func(n ast.Node) {
				if !hit && try(src, func() { printer.Fprint(sink{}, n) }) {
					hit = true
				}
			}, 0)
			if hit {
				return
			}
		}
	}
	// deep nesting with wide indentation
	deep := strings.Repeat("if a; then ", 40) + "b" + strings.Repeat("; fi", 40)
	for _, cmd := range parseAll(deep, nil) {
		cfg := printer.Config{Indent: printer.Space, Width: 8}
		if try(deep+" with Width 8", func() { cfg.Fprint(sink{}, cmd) }) {
			return
		}
	}
}
`
	case "interp":
		return "package interp_test\n" + common + parse + `
func words(cmds []ast.Command) []ast.Word {
	var out []ast.Word
	for _, cmd := range cmds {
		walk(reflect.ValueOf(cmd), func(n ast.Node) {
			if w, ok := n.(ast.Word); ok {
				out = append(out, w)
			}
		}, 0)
	}
	return out
}

func newEnv(args ...string) *interp.ExecEnv {
	env := interp.NewExecEnv("sh", args...)
	env.Set("x", "a b")
	env.Set("e", "")
	env.Set("p", "*?[a]")
	env.Set("n", "08")
	return env
}

func TestVerifReplay(t *testing.T) {
	c := loadCorpus(t)
	defer done()
	modes := []interp.ExpMode{0, interp.Arith, interp.Assign, interp.Literal, interp.Pattern, interp.Quote, interp.Assign | interp.Quote, interp.Literal | interp.Pattern}
	dir, _ := os.MkdirTemp(os.Getenv("VERIF_REPLAY_TMP"), "cwd")
	os.Chdir(dir)
	for _, src := range sources(c) {
		for _, w := range words(parseAll(src, nil)) {
			for _, args := range [][]string{nil, {"1", "", "c d"}} {
				for _, ifs := range []string{" \t\n", "", ":", "\xff", "é "} {
					for _, m := range modes {
						env := newEnv(args...)
						env.Set("IFS", ifs)
						if try(fmt.Sprintf("Expand(%q) mode %d args %q IFS %q", src, m, args, ifs), func() { env.Expand(w, m) }) {
							return
						}
					}
				}
			}
		}
	}
	for _, ex := range append(c.Arith, c.Lits...) {
		env := newEnv("1")
		if try("Eval("+fmt.Sprintf("%q", ex)+")", func() { fmt.Fprintf(os.Stderr, "REPLAY-INPUT %q\n", "Eval "+ex); env.Eval(ex) }) {
			return
		}
	}
	for o := interp.Option(0); o < 1<<16; o += 257 {
		if try(fmt.Sprintf("Option(%d).String()", o), func() { _ = o.String() }) {
			return
		}
	}
}
`
	case "pattern":
		return "package pattern_test\n" + common + `
func TestVerifReplay(t *testing.T) {
	c := loadCorpus(t)
	defer done()
	modes := []pattern.Mode{pattern.Smallest | pattern.Prefix, pattern.Largest | pattern.Prefix, pattern.Smallest | pattern.Suffix, pattern.Largest | pattern.Suffix, 0}
	pats := append(c.Pattern, c.Lits...)
	for _, p := range pats {
		for _, s := range c.Subjects {
			for _, m := range modes {
				if try(fmt.Sprintf("Match([%q], %d, %q)", p, m, s), func() { pattern.Match([]string{p}, m, s) }) {
					return
				}
			}
		}
	}
	dir, _ := os.MkdirTemp(os.Getenv("VERIF_REPLAY_TMP"), "glob")
	os.Chdir(dir)
	os.MkdirAll("d/.h", 0o755)
	os.WriteFile("a", nil, 0o644)
	os.WriteFile(".b", nil, 0o644)
	os.WriteFile("d/c", nil, 0o644)
	for _, p := range pats {
		if try(fmt.Sprintf("Glob(%q)", p), func() { pattern.Glob(p) }) {
			return
		}
	}
}
`
	}
	return ""
}
