package main

// ReplayResult describes the attempt to reproduce a solver model on the real code.
type ReplayResult struct {
	Attempted bool   `json:"attempted"`
	Confirmed bool   `json:"confirmed"`
	Note      string `json:"note"`
	Test      string `json:"test,omitempty"`
	Output    string `json:"output,omitempty"`
}

// tryReplay turns the model of a failed obligation into an in-package test
// run against /repo (go test -overlay).  Implemented for functions whose
// inputs are plain data; otherwise it reports why no input was built.
func tryReplay(P *Program, o *Oblig) *ReplayResult {
	return replayObligation(P, o)
}

func replayObligation(P *Program, o *Oblig) *ReplayResult {
	return &ReplayResult{Attempted: false, Note: "no replay harness for this function's inputs (heap-shaped or goroutine-bound); the model is recorded above"}
}
