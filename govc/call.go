package main

import (
	"fmt"
	"go/types"
	"os"
	"regexp"
	"strings"

	"golang.org/x/tools/go/ssa"
)

const maxInlineDepth = 4

func (f *Frame) execCall(c *cursor, x *ssa.Call) {
	res := f.doCall(c, x, &x.Call, x)
	f.bindResults(x, res, c.st)
}

func (f *Frame) bindResults(x *ssa.Call, res []Term, st *State) {
	sig := x.Call.Signature()
	n := sig.Results().Len()
	switch {
	case n == 0:
	case n == 1:
		if len(res) != 1 {
			f.freshFor(x, st)
			return
		}
		want := f.sortFor(x)
		if res[0].Sort != want {
			res[0] = f.coerceSort(res[0], want, x.Type())
		}
		f.vals[x] = f.e.define(f.name(x), res[0])
	default:
		if len(res) != n {
			res = nil
			for i := 0; i < n; i++ {
				t := f.e.declare(fmt.Sprintf("%s.%d", f.name(x), i), f.e.sortOf(sig.Results().At(i).Type()))
				f.typeFacts(t, sig.Results().At(i).Type(), st)
				res = append(res, t)
			}
		}
		f.tuples[x] = res
	}
}

// doCall performs a call and returns its results.
func (f *Frame) doCall(c *cursor, site ssa.Instruction, call *ssa.CallCommon, resv ssa.Value) []Term {
	e := f.e
	if call.IsInvoke() {
		return f.invoke(c, site, call)
	}
	switch v := call.Value.(type) {
	case *ssa.Builtin:
		return f.builtin(c, site, call, v)
	case *ssa.Function:
		return f.callFunc(c, site, v, call.Args, nil)
	case *ssa.MakeClosure:
		return f.callFunc(c, site, v.Fn.(*ssa.Function), call.Args, &closureVal{fn: v.Fn.(*ssa.Function), bindings: v.Bindings, frame: f})
	}
	if cl := f.findClosure(call.Value); cl != nil {
		return f.callFunc(c, site, cl.fn, call.Args, cl)
	}
	// a func value: dispatch on the identities of the closures created so far in
	// this encoding (they are distinct constants); anything else is unknown code
	fv := f.val(call.Value)
	f.guard(c, "nil", site, not(eq(fv, intLit(0))))
	var cands []*closureVal
	for _, cv := range e.closureIDs {
		if types.Identical(cv.fn.Signature, call.Signature()) && !f.onStack(cv.fn) {
			cands = append(cands, cv)
		}
	}
	if os.Getenv("GOVC_DEBUG") != "" {
		fmt.Fprintf(os.Stderr, "dyn call in %s (top %s): %d candidate closures of %d known\n", f.fn.Name(), e.Key, len(cands), len(e.closureIDs))
	}
	if len(cands) == 0 || len(cands) > 4 || call.Signature().Results().Len() > 0 {
		fams, all := f.dynEffects(call)
		e.havoc(c.st, fams, all)
		return f.freshResults(call.Signature(), c.st, "dyn")
	}
	before := c.st.clone()
	var conds []Term
	var sts []*State
	var reaches []Term
	other := tTrue
	for _, cv := range cands {
		is := eq(fv, cv.id)
		other = and(other, not(is))
		sub := &cursor{reach: and(c.reach, is), st: before.clone(), blk: c.blk}
		f.callFunc(sub, site, cv.fn, call.Args, cv)
		conds = append(conds, is)
		sts = append(sts, sub.st)
		reaches = append(reaches, or(not(is), sub.reach))
	}
	// none of the known closures: unknown effects
	unk := before.clone()
	fams, all := f.dynEffects(call)
	e.havoc(unk, fams, all)
	conds = append(conds, other)
	sts = append(sts, unk)
	ns := e.mergeStates(conds, sts)
	*c.st = *ns
	c.reach = e.define(f.pfx+"r.dyn", and(append([]Term{c.reach}, reaches...)...))
	return nil
}

func (f *Frame) findClosure(v ssa.Value) *closureVal {
	for fr := f; fr != nil; fr = fr.parent {
		if cl, ok := fr.closures[v]; ok {
			return cl
		}
	}
	return nil
}

func (f *Frame) freshResults(sig *types.Signature, st *State, hint string) []Term {
	var out []Term
	for i := 0; i < sig.Results().Len(); i++ {
		t := f.e.declare(f.pfx+hint+".r", f.e.sortOf(sig.Results().At(i).Type()))
		f.typeFacts(t, sig.Results().At(i).Type(), st)
		out = append(out, t)
	}
	return out
}

func (f *Frame) argTerms(args []ssa.Value) []Term {
	var out []Term
	for _, a := range args {
		if _, ok := f.lvals[a]; ok {
			out = append(out, Term{})
			continue
		}
		out = append(out, f.val(a))
	}
	return out
}

func (f *Frame) callFunc(c *cursor, site ssa.Instruction, callee *ssa.Function, args []ssa.Value, cl *closureVal) []Term {
	e := f.e
	P := e.P
	key := funcKey(callee)
	inRepo := P.Funcs[key] == callee
	if !inRepo {
		return f.extern(c, site, externName(callee), callee.Signature, args)
	}
	// implicit precondition of methods: the pointer receiver is not nil
	if callee.Signature.Recv() != nil && len(args) > 0 {
		if _, isPtr := args[0].Type().Underlying().(*types.Pointer); isPtr {
			if _, isLv := f.lvals[args[0]]; !isLv {
				if _, isAlloc := args[0].(*ssa.Alloc); !isAlloc {
					f.guard(c, "nil", site, not(eq(f.val(args[0]), intLit(0))))
				}
			}
		}
	}
	// implicit precondition of unexported functions: node parameters are not nil
	{
		for i, p := range callee.Params {
			if i == 0 && callee.Signature.Recv() != nil {
				continue
			}
			if i < len(args) && f.implicitNonNil(callee, p.Type()) && !nilOK(P.specFor(callee), p.Name()) {
				a := f.val(args[i])
				if a.Sort == SInt {
					f.guard(c, "nil", site, not(eq(a, intLit(0))))
				} else if a.Sort == SIface {
					f.guard(c, "nil", site, not(eq(ifTag(a), intLit(0))))
				}
			}
		}
	}
	spec := P.specFor(callee)
	if spec == nil && callee.Pkg != nil && callee.Parent() == nil {
		if _, ok := P.Specs.DefaultOpaque[callee.Pkg.Pkg.Name()]; ok {
			spec = &FuncSpec{Key: key, Opaque: true}
		}
	}
	if spec != nil && !spec.hasContract() && !spec.Inline && callee.Pkg != nil && callee.Parent() == nil {
		if _, ok := P.Specs.DefaultOpaque[callee.Pkg.Pkg.Name()]; ok {
			cp := *spec
			cp.Opaque = true // a block without pre/postconditions in a "default opaque" package is still a contract
			spec = &cp
		}
	}
	if spec != nil && (spec.Inline || cl != nil) {
		spec = nil // closures are executed in place, with their captured variables
	}
	if spec != nil && spec.hasContract() {
		return f.applyContract(c, site, callee, spec, f.argTerms(args), key)
	}
	// inline
	if f.depth < maxInlineDepth && !f.onStack(callee) && len(callee.Blocks) > 0 && len(callee.Blocks) <= 60 {
		return f.inline(c, site, callee, args, cl)
	}
	// havoc according to computed effects
	ef := P.effectsOf(callee, e.U)
	e.havoc(c.st, ef.Fams, ef.All)
	e.warn("%s: call to %s abstracted (no contract, not inlined)", f.fn.Name(), key)
	return f.freshResults(callee.Signature, c.st, sanitize(callee.Name()))
}

func (f *Frame) onStack(fn *ssa.Function) bool {
	for fr := f; fr != nil; fr = fr.caller {
		if fr.fn == fn {
			return true
		}
	}
	return false
}

func (f *Frame) inline(c *cursor, site ssa.Instruction, callee *ssa.Function, args []ssa.Value, cl *closureVal) []Term {
	e := f.e
	g := e.newFrame(callee, f.depth+1)
	g.caller = f
	g.props = f.props
	for i, p := range callee.Params {
		if i < len(args) {
			if lv, ok := f.lvals[args[i]]; ok {
				g.lvals[p] = lv
				continue
			}
			g.vals[p] = f.val(args[i])
		}
	}
	if cl != nil {
		g.parent = cl.frame
		for i, fv := range callee.FreeVars {
			if i < len(cl.bindings) {
				b := cl.bindings[i]
				if base, ok := cl.frame.privBase(b); ok {
					if g.privAlias == nil {
						g.privAlias = map[ssa.Value]string{}
					}
					g.privAlias[fv] = base
					g.vals[fv] = intLit(-7)
				} else if lv, ok := cl.frame.lvals[b]; ok {
					g.lvals[fv] = lv
				} else {
					g.vals[fv] = cl.frame.val(b)
				}
			}
		}
	}
	g.run(c.reach, c.st)
	// propagate panics
	f.panics = append(f.panics, g.panics...)
	if len(g.rets) == 0 {
		// never returns
		c.reach = tFalse
		return f.freshResults(callee.Signature, c.st, "noret")
	}
	var conds []Term
	var sts []*State
	for _, r := range g.rets {
		conds = append(conds, r.reach)
		sts = append(sts, r.state)
	}
	c.reach = e.define(f.pfx+"r.ret", or(conds...))
	ns := e.mergeStates(conds, sts)
	*c.st = *ns
	n := callee.Signature.Results().Len()
	var out []Term
	for i := 0; i < n; i++ {
		t := g.rets[len(g.rets)-1].results[i]
		for j := len(g.rets) - 2; j >= 0; j-- {
			t = ite(g.rets[j].reach, g.rets[j].results[i], t)
		}
		out = append(out, e.define(f.pfx+"ret."+sanitize(callee.Name()), t))
	}
	return out
}

// applyContract: check requires, havoc the callee's effects, assume ensures.
func (f *Frame) applyContract(c *cursor, site ssa.Instruction, callee *ssa.Function, spec *FuncSpec, args []Term, key string) []Term {
	e := f.e
	f.callNo[key]++
	env := &SpecEnv{f: f, names: map[string]Term{}, types: map[string]types.Type{}, cur: c.st, old: c.st}
	if callee.Pkg != nil {
		env.pkg = callee.Pkg.Pkg
	}
	for i, p := range callee.Params {
		if i < len(args) && args[i].S != "" {
			env.names[p.Name()] = args[i]
			env.types[p.Name()] = p.Type()
		}
	}
	for _, r := range spec.Requires {
		t, err := env.evalBool(r.Expr)
		if err != nil {
			e.fail("requires of %s: %v", key, err)
			continue
		}
		txt, pos := f.obligName("call", site)
		_ = txt
		e.addOblig("requires", fmt.Sprintf("%s: %s", shortKey(key), r.Text), unionProps(r.Props, f.props), pos, c.reach, t)
		c.reach = and(c.reach, t)
	}
	pre := c.st.clone()
	ef := e.P.effectsOf(callee, e.U)
	e.havoc(c.st, ef.Fams, ef.All)
	res := f.freshResults(callee.Signature, c.st, sanitize(callee.Name()))
	env2 := &SpecEnv{f: f, names: env.names, types: env.types, cur: c.st, old: pre, pkg: env.pkg}
	bindResultNames(env2, callee, res)
	var ens []Term
	for _, en := range append(append([]*Clause{}, spec.Ensures...), spec.Assumes...) {
		// a clause over the callee's own locals or sites (a decision table) says
		// nothing a caller can use; it is checked where the callee is verified
		if mentionsSite(en.Expr) {
			continue
		}
		t, err := env2.evalBool(en.Expr)
		if err != nil {
			if m := unknownNameRe.FindStringSubmatch(err.Error()); m != nil && isLocalOf(callee, m[1]) {
				continue
			}
			e.fail("ensures of %s: %v", key, err)
			continue
		}
		ens = append(ens, t)
	}
	for _, as := range spec.Assumes {
		e.usedAssumes[key+": "+as.Text] = true
	}
	c.reach = e.define(f.pfx+"r.post", and(append([]Term{c.reach}, ens...)...))
	if cls := e.P.mayPanicClass(callee); cls != "" {
		if e.P.mayPanicClass(e.Top) != cls && !(e.Spec != nil && e.Spec.Recovers == cls) {
			_, pos := f.obligName("call", site)
			e.addOblig("panic", "callee "+shortKey(key)+" may panic ("+cls+")", f.props, pos, c.reach, tFalse)
		}
	}
	return res
}

func shortKey(k string) string { return k }

func unionProps(a, b []string) []string {
	if len(a) > 0 {
		return a
	}
	return b
}

func bindResultNames(env *SpecEnv, fn *ssa.Function, res []Term) {
	rs := fn.Signature.Results()
	for i := 0; i < rs.Len() && i < len(res); i++ {
		n := rs.At(i).Name()
		if n != "" && n != "_" {
			env.names[n] = res[i]
			env.types[n] = rs.At(i).Type()
		}
		env.names[fmt.Sprintf("result%d", i)] = res[i]
		env.types[fmt.Sprintf("result%d", i)] = rs.At(i).Type()
	}
	if rs.Len() >= 1 && len(res) >= 1 {
		env.names["result"] = res[0]
		env.types["result"] = rs.At(0).Type()
	}
}

// ---------- interface method calls ----------

func (f *Frame) invoke(c *cursor, site ssa.Instruction, call *ssa.CallCommon) []Term {
	e := f.e
	recv := f.val(call.Value)
	f.guard(c, "nil", site, not(eq(ifTag(recv), intLit(0))))
	rt := call.Value.Type()
	mname := call.Method.Name()
	// contract on the interface method
	ikey := ifaceKey(rt) + "." + mname
	if spec := e.P.Specs.Funcs[ikey]; spec != nil && spec.hasContract() {
		return f.applyIfaceContract(c, site, call, spec, recv, ikey)
	}
	if res, ok := f.externInvoke(c, site, typeName(rt)+"."+mname, call, recv); ok {
		return res
	}
	// all repo implementers: havoc their effects
	iface := rt.Underlying().(*types.Interface)
	found := false
	fams := map[string]Sort{}
	all := false
	for _, t := range e.P.implementers(iface) {
		ms := e.P.SSA.MethodSets.MethodSet(t)
		sel := ms.Lookup(call.Method.Pkg(), mname)
		if sel == nil {
			continue
		}
		m := e.P.SSA.MethodValue(sel)
		if m != nil && e.P.Funcs[funcKey(m)] == m {
			found = true
			ef := e.P.effectsOf(m, e.U)
			if ef.All {
				all = true
			}
			for k, s := range ef.Fams {
				fams[k] = s
			}
		}
	}
	if !found {
		all = true
	}
	e.havoc(c.st, fams, all)
	return f.freshResults(call.Signature(), c.st, mname)
}

func ifaceKey(t types.Type) string {
	if n, ok := t.(*types.Named); ok && n.Obj().Pkg() != nil {
		return n.Obj().Pkg().Name() + "." + n.Obj().Name()
	}
	return typeName(t)
}

func (f *Frame) applyIfaceContract(c *cursor, site ssa.Instruction, call *ssa.CallCommon, spec *FuncSpec, recv Term, key string) []Term {
	e := f.e
	env := &SpecEnv{f: f, names: map[string]Term{"self": recv}, types: map[string]types.Type{"self": call.Value.Type()}, cur: c.st, old: c.st}
	for _, r := range spec.Requires {
		t, err := env.evalBool(r.Expr)
		if err != nil {
			e.fail("requires of %s: %v", key, err)
			continue
		}
		_, pos := f.obligName("call", site)
		e.addOblig("requires", fmt.Sprintf("%s: %s", key, r.Text), unionProps(r.Props, f.props), pos, c.reach, t)
		c.reach = and(c.reach, t)
	}
	pre := c.st.clone()
	// effects: union of the implementers
	iface := call.Value.Type().Underlying().(*types.Interface)
	fams := map[string]Sort{}
	all := false
	for _, t := range e.P.implementers(iface) {
		ms := e.P.SSA.MethodSets.MethodSet(t)
		sel := ms.Lookup(call.Method.Pkg(), call.Method.Name())
		if sel == nil {
			continue
		}
		if m := e.P.SSA.MethodValue(sel); m != nil && e.P.Funcs[funcKey(m)] == m {
			ef := e.P.effectsOf(m, e.U)
			all = all || ef.All
			for k, s := range ef.Fams {
				fams[k] = s
			}
		}
	}
	e.havoc(c.st, fams, all)
	res := f.freshResults(call.Signature(), c.st, call.Method.Name())
	env2 := &SpecEnv{f: f, names: env.names, types: env.types, cur: c.st, old: pre}
	if len(res) > 0 {
		env2.names["result"] = res[0]
		env2.types["result"] = call.Signature().Results().At(0).Type()
	}
	var ens []Term
	for _, en := range spec.Ensures {
		t, err := env2.evalBool(en.Expr)
		if err != nil {
			e.fail("ensures of %s: %v", key, err)
			continue
		}
		ens = append(ens, t)
	}
	c.reach = e.define(f.pfx+"r.post", and(append([]Term{c.reach}, ens...)...))
	return res
}

// ---------- builtins ----------

func (f *Frame) builtin(c *cursor, site ssa.Instruction, call *ssa.CallCommon, b *ssa.Builtin) []Term {
	e := f.e
	st := c.st
	switch b.Name() {
	case "len":
		v := f.val(call.Args[0])
		var t Term
		switch v.Sort {
		case SStr:
			t = sLen(v)
		case SSlice:
			t = slLen(v)
		default:
			if _, ok := call.Args[0].Type().Underlying().(*types.Map); ok {
				e.U.declareFun("map.len", []Sort{SInt}, SInt)
				t = e.declare(f.pfx+"maplen", SInt)
				e.assume(le(intLit(0), t), t.S)
			} else if pt, ok := call.Args[0].Type().Underlying().(*types.Pointer); ok {
				t = intLit(pt.Elem().Underlying().(*types.Array).Len())
			} else {
				e.fail("len of %s", call.Args[0].Type())
				t = intLit(0)
			}
		}
		return []Term{t}
	case "cap":
		v := f.val(call.Args[0])
		t := slCap(v)
		return []Term{t}
	case "append":
		return []Term{f.doAppend(c, site, call)}
	case "copy":
		return []Term{f.doCopy(c, site, call)}
	case "delete":
		mt := call.Args[0].Type().Underlying().(*types.Map)
		ks, vs := e.U.sortOf(mt.Key(), false), e.U.sortOf(mt.Elem(), false)
		m, key := f.val(call.Args[0]), f.val(call.Args[1])
		hf := mapHasFam(ks, vs)
		hs := arraySort(SInt, arraySort(ks, SBool))
		hasArr := e.family(st, hf, hs)
		// delete on a nil map is a no-op
		e.setFamily(st, hf, ite(eq(m, intLit(0)), hasArr, store(hasArr, m, store(sel(hasArr, m, arraySort(ks, SBool)), key, tFalse))))
		return nil
	case "close":
		// ghost: the channel is closed from now on
		if len(call.Args) == 1 {
			if chv, ok := f.vals[call.Args[0]]; ok {
				e.famSort["Chan.closed"] = arraySort(SInt, SBool)
				e.setFamily(c.st, "Chan.closed", store(e.family(c.st, "Chan.closed", arraySort(SInt, SBool)), chv, tTrue))
			}
		}
		return nil
	case "recover":
		r := e.declare(f.pfx+"recovered", SIface)
		f.typeFacts(r, types.NewInterfaceType(nil, nil), st)
		top := e.Spec
		for fr := f; fr != nil; fr = fr.caller {
			if fr.recoverNil {
				return []Term{nilIface}
			}
		}
		if top == nil || top.Recovers == "" {
			return []Term{r}
		}
		// the recovered value is nil (normal return) or a declared bail-out value
		cls := e.P.Specs.PanicClasses[top.Recovers]
		if cls != nil {
			env := &SpecEnv{f: f, names: map[string]Term{"value": r}, types: map[string]types.Type{"value": types.NewInterfaceType(nil, nil)}, cur: st, old: st}
			t, err := env.evalBool(cls.Expr)
			if err == nil {
				e.assume(or(eq(r, nilIface), t), r.S)
			}
		}
		return []Term{r}
	case "print", "println":
		return nil
	case "min", "max":
		a, bb := f.val(call.Args[0]), f.val(call.Args[1])
		if b.Name() == "min" {
			return []Term{ite(le(a, bb), a, bb)}
		}
		return []Term{ite(le(a, bb), bb, a)}
	case "ssa:wrapnilchk":
		return []Term{f.val(call.Args[0])}
	}
	e.fail("%s: builtin %s", f.fn.Name(), b.Name())
	return f.freshResults(call.Signature(), st, "bi")
}

// doAppend models append: the result shares the prefix; in-place growth is
// visible through the old backing array beyond the old length.
func (f *Frame) doAppend(c *cursor, site ssa.Instruction, call *ssa.CallCommon) Term {
	e := f.e
	st := c.st
	s := f.val(call.Args[0])
	et := call.Args[0].Type().Underlying().(*types.Slice).Elem()
	es := e.U.sortOf(et, false)
	fam := memFam(es)
	mem := e.family(st, fam, memSort(es))
	inner := arraySort(SInt, es)
	// appended elements
	var n Term                   // number appended
	var elemAt func(i Term) Term // i relative to 0..n
	var single *Term
	if a1 := call.Args[1]; e.sortOf(a1.Type()) == SStr {
		// append([]byte, string...)
		str := f.val(a1)
		n = sLen(str)
		elemAt = func(i Term) Term { return sByte(str, i) }
	} else {
		t := f.val(a1)
		// variadic slice: either a literal 1-element array slice or an arbitrary slice
		n = slLen(t)
		elemAt = func(i Term) Term { return sel(sel(mem, slBase(t), inner), add(slOff(t), i), es) }
		if one := f.singletonSlice(a1); one != nil {
			v := f.val(one)
			single = &v
			n = intLit(1)
		}
	}
	r := e.declare(f.pfx+"app", SSlice)
	newLen := add(slLen(s), n)
	grow := e.declare(f.pfx+"app.grow", SBool)
	nb := e.declare(f.pfx+"app.base", SInt)
	e.assume(gt(nb, st.alloc), nb.S)
	// result header
	e.assume(and(
		eq(slLen(r), newLen), le(newLen, slCap(r)),
		implies(not(grow), and(le(newLen, slCap(s)), eq(slBase(r), slBase(s)), eq(slOff(r), slOff(s)), eq(slCap(r), slCap(s)))),
		implies(grow, and(eq(slBase(r), nb), eq(slOff(r), intLit(0)))),
		implies(eq(slBase(s), intLit(0)), or(grow, eq(n, intLit(0)))),
	), r.S)
	st.alloc = e.define("alloc", ite(grow, nb, st.alloc))
	// memory after
	nm := e.declare("h."+fam, memSort(es))
	arrNew := sel(nm, slBase(r), inner)
	if single != nil {
		// exact quantifier-free model for the common single-element case when not growing
		inplace := store(mem, slBase(s), store(sel(mem, slBase(s), inner), add(slOff(s), slLen(s)), *single))
		e.assume(implies(not(grow), eq(nm, inplace)), nm.S, r.S)
		e.assume(implies(grow, and(
			eq(sel(arrNew, slLen(s), es), *single),
			Term{fmt.Sprintf("(forall ((i Int)) (! (=> (and (<= 0 i) (< i %s)) (= (select %s i) (select (select %s %s) (+ %s i)))) :pattern ((select %s i))))",
				slLen(s).S, arrNew.S, mem.S, slBase(s).S, slOff(s).S, arrNew.S), SBool},
			Term{fmt.Sprintf("(forall ((b Int)) (! (=> (not (= b %s)) (= (select %s b) (select %s b))) :pattern ((select %s b))))", nb.S, nm.S, mem.S, nm.S), SBool},
		)), nm.S, r.S)
	} else {
		e.assume(and(
			Term{fmt.Sprintf("(forall ((i Int)) (! (=> (and (<= 0 i) (< i %s)) (= (select %s (+ %s i)) (select (select %s %s) (+ %s i)))) :pattern ((select %s (+ %s i)))))",
				slLen(s).S, arrNew.S, slOff(r).S, mem.S, slBase(s).S, slOff(s).S, arrNew.S, slOff(r).S), SBool},
			Term{fmt.Sprintf("(forall ((i Int)) (! (=> (and (<= 0 i) (< i %s)) (= (select %s (+ %s %s i)) %s)) :pattern ((select %s (+ %s %s i)))))",
				n.S, arrNew.S, slOff(r).S, slLen(s).S, elemAt(Term{"i", SInt}).S, arrNew.S, slOff(r).S, slLen(s).S), SBool},
			Term{fmt.Sprintf("(forall ((b Int)) (! (=> (and (not (= b %s)) (not (= b %s))) (= (select %s b) (select %s b))) :pattern ((select %s b))))", slBase(r).S, slBase(s).S, nm.S, mem.S, nm.S), SBool},
			// the old backing array keeps everything below the old length
			Term{fmt.Sprintf("(forall ((i Int)) (! (=> (< i (+ %s %s)) (= (select (select %s %s) i) (select (select %s %s) i))) :pattern ((select (select %s %s) i))))",
				slOff(s).S, slLen(s).S, nm.S, slBase(s).S, mem.S, slBase(s).S, nm.S, slBase(s).S), SBool},
		), nm.S, r.S)
	}
	st.heap[fam] = nm
	e.famSort[fam] = memSort(es)
	f.typeFacts(r, call.Args[0].Type(), nil)
	return r
}

// singletonSlice recognises the SSA pattern for a variadic call with one
// element: new [1]T; store; slice [:]
func (f *Frame) singletonSlice(v ssa.Value) ssa.Value {
	sl, ok := v.(*ssa.Slice)
	if !ok || sl.Low != nil || sl.High != nil {
		return nil
	}
	al, ok := sl.X.(*ssa.Alloc)
	if !ok {
		return nil
	}
	at, ok := al.Type().Underlying().(*types.Pointer).Elem().Underlying().(*types.Array)
	if !ok || at.Len() != 1 {
		return nil
	}
	var val ssa.Value
	for _, r := range *al.Referrers() {
		if ia, ok := r.(*ssa.IndexAddr); ok {
			for _, r2 := range *ia.Referrers() {
				if st, ok := r2.(*ssa.Store); ok && st.Addr == ia {
					if val != nil {
						return nil
					}
					val = st.Val
				}
			}
		}
	}
	return val
}

func (f *Frame) doCopy(c *cursor, site ssa.Instruction, call *ssa.CallCommon) Term {
	e := f.e
	st := c.st
	dst := f.val(call.Args[0])
	et := call.Args[0].Type().Underlying().(*types.Slice).Elem()
	es := e.U.sortOf(et, false)
	fam := memFam(es)
	mem := e.family(st, fam, memSort(es))
	inner := arraySort(SInt, es)
	var srcLen Term
	var srcAt func(i Term) Term
	if e.sortOf(call.Args[1].Type()) == SStr {
		s := f.val(call.Args[1])
		srcLen = sLen(s)
		srcAt = func(i Term) Term { return sByte(s, i) }
	} else {
		s := f.val(call.Args[1])
		srcLen = slLen(s)
		srcAt = func(i Term) Term { return sel(sel(mem, slBase(s), inner), add(slOff(s), i), es) }
	}
	n := e.define(f.pfx+"copy.n", ite(le(slLen(dst), srcLen), slLen(dst), srcLen))
	nm := e.declare("h."+fam, memSort(es))
	arrNew := sel(nm, slBase(dst), inner)
	e.assume(and(
		Term{fmt.Sprintf("(forall ((i Int)) (! (=> (and (<= 0 i) (< i %s)) (= (select %s (+ %s i)) %s)) :pattern ((select %s (+ %s i)))))",
			n.S, arrNew.S, slOff(dst).S, srcAt(Term{"i", SInt}).S, arrNew.S, slOff(dst).S), SBool},
		Term{fmt.Sprintf("(forall ((i Int)) (! (=> (or (< i %s) (>= i (+ %s %s))) (= (select %s i) (select (select %s %s) i))) :pattern ((select %s i))))",
			slOff(dst).S, slOff(dst).S, n.S, arrNew.S, mem.S, slBase(dst).S, arrNew.S), SBool},
		Term{fmt.Sprintf("(forall ((b Int)) (! (=> (not (= b %s)) (= (select %s b) (select %s b))) :pattern ((select %s b))))", slBase(dst).S, nm.S, mem.S, nm.S), SBool},
	), nm.S)
	st.heap[fam] = nm
	e.famSort[fam] = memSort(es)
	return n
}

// ---------- defers ----------

func (f *Frame) runDefers(c *cursor) {
	e := f.e
	for i := len(f.deferSt) - 1; i >= 0; i-- {
		d := f.deferSt[i]
		// a defer inside a loop runs once per iteration that registered it: summarised
		// by forgetting everything (the deferred functions are verified on their own)
		inLoop := false
		for _, li := range f.loops {
			if li.body[d.instr.Block()] {
				inLoop = true
			}
		}
		if inLoop {
			fams, all := f.dynEffects(&d.instr.Call)
			if sc := d.instr.Call.StaticCallee(); sc != nil && e.P.Funcs[funcKey(sc)] == sc {
				ef := e.P.effectsOf(sc, e.U)
				fams, all = ef.Fams, ef.All
			}
			e.havoc(c.st, fams, all)
			e.warn("%s: deferred call registered in a loop summarised by havoc", f.fn.Name())
			continue
		}
		g := d.reach // registered on this path?
		before := c.st.clone()
		sub := &cursor{reach: and(c.reach, g), st: c.st.clone(), blk: c.blk}
		save := f.recoverNil
		f.recoverNil = true // on the normal-return path recover() yields nil
		f.doCall(sub, d.instr, &d.instr.Call, nil)
		f.recoverNil = save
		// merge: executed or not
		ns := e.mergeStates([]Term{g, not(g)}, []*State{sub.st, before})
		*c.st = *ns
		// facts assumed during the call (ensures) hold only if it ran
		c.reach = e.define(f.pfx+"r.def", and(c.reach, or(not(g), sub.reach)))
	}
}

func describeCall(call *ssa.CallCommon) string {
	if call.IsInvoke() {
		return call.Method.Name()
	}
	if fn, ok := call.Value.(*ssa.Function); ok {
		return fn.Name()
	}
	return strings.TrimSpace(call.Value.Name())
}

// implicitNonNil: parameters of unexported functions whose type is a node
// pointer/interface of a package with "wf elems" are never nil.
func (f *Frame) implicitNonNil(callee *ssa.Function, t types.Type) bool {
	if callee.Object() != nil && callee.Object().Exported() {
		return false
	}
	if !f.elemNonNil(t) {
		return false
	}
	switch t.Underlying().(type) {
	case *types.Pointer:
		return true
	}
	return false
}

// specFor finds the contract block of a function: its own, or the wildcard
// block of its receiver type ("(*T).*").
func (P *Program) specFor(fn *ssa.Function) *FuncSpec {
	key := funcKey(fn)
	sp := P.Specs.Funcs[key]
	if fn.Signature.Recv() != nil && fn.Pkg != nil {
		rk := fn.Pkg.Pkg.Name() + ".(" + strings.TrimPrefix(typeName(fn.Signature.Recv().Type()), fn.Pkg.Pkg.Name()+".") + ").*"
		rk = strings.Replace(rk, "(*"+fn.Pkg.Pkg.Name()+".", "(*", 1)
		if sp == nil {
			sp = P.Specs.Funcs[rk]
		}
		if ev := P.Specs.Every[rk]; ev != nil {
			if sp == nil {
				sp = &FuncSpec{Key: key, File: ev.File, Line: ev.Line, Props: ev.Props}
				P.Specs.Funcs[key] = sp
			}
			if P.Specs.everyMerged == nil {
				P.Specs.everyMerged = map[*FuncSpec]bool{}
			}
			if !P.Specs.everyMerged[sp] {
				P.Specs.everyMerged[sp] = true
				sp.Requires = append(sp.Requires, ev.Requires...)
				sp.Ensures = append(sp.Ensures, ev.Ensures...)
				sp.Assumes = append(sp.Assumes, ev.Assumes...)
				sp.Frames = append(sp.Frames, ev.Frames...)
			}
		}
	}
	return sp
}

// dynEffects: effects of calling a func value; when no func of that
// signature can enter the package from outside, the union over the
// package's own closures of that signature.
func (f *Frame) dynEffects(call *ssa.CallCommon) (map[string]Sort, bool) {
	e := f.e
	pkg := f.fn.Pkg
	if pkg == nil && f.fn.Parent() != nil {
		pkg = f.fn.Parent().Pkg
	}
	if pkg == nil || call.IsInvoke() {
		return nil, true
	}
	cs, closed := e.P.closuresOfSig(pkg, call.Signature())
	if !closed {
		return nil, true
	}
	fams := map[string]Sort{}
	for _, c := range cs {
		ef := e.P.effectsOf(c, e.U)
		if ef.All {
			return nil, true
		}
		for k, s := range ef.Fams {
			fams[k] = s
		}
	}
	return fams, false
}

// mayPanicClass: the class of panics a function may raise - declared
// ("maypanic X") or inherited from the functions it calls (a panic
// propagates up the stack), unless it recovers that class itself.
func (P *Program) mayPanicClass(fn *ssa.Function) string {
	if P.panicCls == nil {
		P.panicCls = map[*ssa.Function]string{}
		for _, f := range P.Funcs {
			if sp := P.specFor(f); sp != nil && sp.MayPanic != "" {
				P.panicCls[f] = sp.MayPanic
			}
		}
		ra := P.regions()
		for changed := true; changed; {
			changed = false
			for _, f := range P.Funcs {
				if P.panicCls[f] != "" {
					continue
				}
				if sp := P.specFor(f); sp != nil && sp.Recovers != "" {
					continue
				}
				for _, c := range ra.calls[f] {
					if cls := P.panicCls[c]; cls != "" {
						// deferred closures of the same function do not propagate to it
						P.panicCls[f] = cls
						changed = true
						break
					}
				}
			}
		}
	}
	return P.panicCls[fn]
}

func nilOK(sp *FuncSpec, name string) bool {
	if sp == nil {
		return false
	}
	for _, n := range sp.NilOK {
		if n == name {
			return true
		}
	}
	return false
}

var unknownNameRe = regexp.MustCompile(`unknown name "([^"#]+)(#[0-9]+)?"`)

func mentionsSite(x *SExpr) bool {
	if x == nil {
		return false
	}
	if x.Op == "call" && len(x.Args) > 0 && x.Args[0] != nil && x.Args[0].Op == "ident" && (x.Args[0].Name == "site" || x.Args[0].Name == "sitearg" || x.Args[0].Name == "siteret" || x.Args[0].Name == "at" || x.Args[0].Name == "after" || x.Args[0].Name == "returnsmethod") {
		return true
	}
	if x.Op == "call" && (x.Name == "site" || x.Name == "sitearg" || x.Name == "siteret" || x.Name == "at" || x.Name == "after" || x.Name == "returnsmethod") {
		return true
	}
	for _, a := range x.Args {
		if mentionsSite(a) {
			return true
		}
	}
	return false
}

// isLocalOf: name is a local variable (not a parameter) of fn.
func isLocalOf(fn *ssa.Function, name string) bool {
	for _, p := range fn.Params {
		if p.Name() == name {
			return false
		}
	}
	for _, b := range fn.Blocks {
		for _, in := range b.Instrs {
			if x, ok := in.(*ssa.DebugRef); ok && x.Object() != nil && x.Object().Name() == name {
				if v, isVar := x.Object().(*types.Var); isVar && !v.IsField() {
					return true
				}
			}
		}
	}
	return false
}
