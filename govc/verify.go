package main

import (
	"fmt"
	"go/ast"
	"go/types"
	"strings"

	"golang.org/x/tools/go/ssa"
)

func (e *Enc) specError(format string, a ...interface{}) {
	msg := fmt.Sprintf(format, a...)
	for _, w := range e.specErrs {
		if w == msg {
			return
		}
	}
	e.specErrs = append(e.specErrs, msg)
}

// loopHeaderText returns "for ...{" header text of the loop whose header
// block is li.header, found through the position of its first instruction
// with a position inside a ForStmt/RangeStmt; goto-loops are named by label.
func (P *Program) loopHeaderText(fn *ssa.Function, li *loopInfo) string {
	syn := fn.Syntax()
	if syn == nil {
		return ""
	}
	// candidate loops: all for/range statements in the function, innermost
	// one whose body contains the positions of the loop's blocks
	var stmts []ast.Node
	ast.Inspect(syn, func(n ast.Node) bool {
		switch x := n.(type) {
		case *ast.FuncLit:
			if n != syn {
				return false
			}
		case *ast.ForStmt, *ast.RangeStmt:
			stmts = append(stmts, x)
		case *ast.LabeledStmt:
			stmts = append(stmts, x)
		}
		return true
	})
	// positions seen in loop body blocks
	var lo, hi = -1, -1
	for b := range li.body {
		for _, in := range b.Instrs {
			if p := in.Pos(); p.IsValid() {
				if lo < 0 || int(p) < lo {
					lo = int(p)
				}
				if int(p) > hi {
					hi = int(p)
				}
			}
		}
	}
	if lo < 0 {
		return ""
	}
	var best ast.Node
	for _, s := range stmts {
		if _, isLabel := s.(*ast.LabeledStmt); isLabel {
			continue
		}
		if int(s.Pos()) <= lo && hi <= int(s.End()) {
			if best == nil || (s.Pos() >= best.Pos() && s.End() <= best.End()) {
				best = s
			}
		}
	}
	// the comment of the header block tells for.loop / rangeindex.loop etc.
	if best != nil && strings.Contains(li.header.Comment, "loop") || best != nil && strings.Contains(li.header.Comment, "for.") || best != nil && strings.Contains(li.header.Comment, "range") {
		switch x := best.(type) {
		case *ast.ForStmt:
			return strings.TrimSpace(strings.TrimSuffix(strings.Join(strings.Fields(P.srcText(x.Pos(), x.Body.Lbrace)), " "), "{"))
		case *ast.RangeStmt:
			return strings.TrimSpace(strings.Join(strings.Fields(P.srcText(x.Pos(), x.Body.Lbrace)), " "))
		}
	}
	// label-based loop (goto)
	if li.header.Comment != "" {
		return "label " + li.header.Comment
	}
	return ""
}


// verifyFunction builds all obligations of one function.
func verifyFunction(P *Program, U *Universe, fn *ssa.Function, props []string) *Enc {
	e := newEnc(P, U, fn)
	defer func() {
		if r := recover(); r != nil {
			e.fail("internal error: %v", r)
		}
	}()
	sp := e.Spec
	f := e.newFrame(fn, 0)
	f.top = true
	f.props = props
	if sp != nil && len(sp.Props) > 0 && props == nil {
		f.props = sp.Props
	}
	st := &State{heap: map[string]Term{}, epoch: 0}
	a0 := e.declare("alloc0", SInt)
	e.assume(ge(a0, intLit(1)), a0.S)
	st.alloc = a0
	// parameters
	for _, p := range fn.Params {
		t := e.declare("p."+p.Name(), e.sortOf(p.Type()))
		f.vals[p] = t
		f.typeFacts(t, p.Type(), st)
		e.inputs = append(e.inputs, t.S)
	}
	for _, p := range fn.FreeVars {
		// free variables are pointers to captured cells
		t := e.declare("fv."+p.Name(), e.sortOf(p.Type()))
		f.vals[p] = t
		f.typeFacts(t, p.Type(), st)
	}
	reach := tTrue
	// implicit precondition: a pointer receiver is not nil
	if fn.Signature.Recv() != nil && len(fn.Params) > 0 {
		if _, isPtr := fn.Params[0].Type().Underlying().(*types.Pointer); isPtr {
			reach = and(reach, not(eq(f.vals[fn.Params[0]], intLit(0))))
		}
	}
	// requires
	entryEnv := func(cur, old *State) *SpecEnv {
		env := &SpecEnv{f: f, names: map[string]Term{}, types: map[string]types.Type{}, cur: cur, old: old}
		for _, p := range fn.Params {
			env.names[p.Name()] = f.vals[p]
			env.types[p.Name()] = p.Type()
		}
		for _, p := range fn.FreeVars {
			env.names[p.Name()] = f.vals[p]
			env.types[p.Name()] = p.Type()
		}
		return env
	}
	if sp != nil {
		env := entryEnv(st, st)
		for _, r := range sp.Requires {
			t, err := env.evalBool(r.Expr)
			if err != nil {
				e.specError("%s: requires %q: %v", e.Key, r.Text, err)
				continue
			}
			reach = and(reach, t)
		}
	}
	reach = e.define("r.entry", reach)
	// vacuity: the precondition is satisfiable
	if sp != nil && len(sp.Requires) > 0 {
		o := e.addOblig("cover", "requires satisfiable", f.props, P.position(fn.Pos()), reach, tFalse)
		if o != nil {
			o.Cover = true
		}
	}
	e.oldState = st.clone()
	f.run(reach, st)
	if e.unsupported != "" {
		return e
	}
	// ensures at every return
	for i, r := range f.rets {
		env := entryEnv(r.state, e.oldState)
		bindResultNames(env, fn, r.results)
		if sp != nil {
			for _, en := range sp.Ensures {
				t, err := env.evalBool(en.Expr)
				if err != nil {
					e.specError("%s: ensures %q: %v", e.Key, en.Text, err)
					continue
				}
				name := en.Name
				if len(f.rets) > 1 {
					name = fmt.Sprintf("%s @return%d", en.Name, i+1)
				}
				e.addOblig("ensures", name, en.Props, P.position(r.instr.Pos()), r.reach, t)
			}
		}
	}
	// explicit panics
	for _, p := range f.panics {
		goal := tFalse
		if sp != nil && sp.MayPanic != "" {
			if cls := P.Specs.PanicClasses[sp.MayPanic]; cls != nil {
				env := &SpecEnv{f: f, names: map[string]Term{"value": p.val}, types: map[string]types.Type{"value": types.NewInterfaceType(nil, nil)}, cur: p.state, old: e.oldState}
				t, err := env.evalBool(cls.Expr)
				if err == nil {
					goal = t
				} else {
					e.specError("%s: panicclass %s: %v", e.Key, sp.MayPanic, err)
				}
			}
		}
		txt, pos := f.obligName("panic", p.instr)
		e.addOblig("panic", txt, f.props, pos, p.reach, goal)
	}
	// cover: some return (or permitted panic) is reachable
	if len(f.rets) > 0 {
		var rs []Term
		for _, r := range f.rets {
			rs = append(rs, r.reach)
		}
		o := e.addOblig("cover", "exit reachable", f.props, P.position(fn.Pos()), or(rs...), tFalse)
		if o != nil {
			o.Cover = true
		}
	}
	// unused loop specs / anchors are failed obligations (the contract no longer covers the code)
	if sp != nil {
		for _, ls := range sp.Loops {
			if !ls.Used {
				e.addOblig("resolve", "loop "+ls.Header, f.props, fmt.Sprintf("%s:%d", sp.File, ls.Line), tTrue, tFalse)
			}
		}
	}
	return e
}
