package main

import (
	"fmt"
	"go/ast"
	"go/token"
	"go/types"
	"path/filepath"
	"sort"
	"strings"

	"golang.org/x/tools/go/ssa"
)

func (e *Enc) specError(format string, a ...interface{}) {
	msg := fmt.Sprintf(format, a...)
	for _, w := range e.specErrs {
		if w == msg {
			return
		}
	}
	e.specErrs = append(e.specErrs, msg)
}

// loopHeaderText returns "for ...{" header text of the loop whose header
// block is li.header, found through the position of its first instruction
// with a position inside a ForStmt/RangeStmt; goto-loops are named by label.
func (P *Program) loopHeaderText(fn *ssa.Function, li *loopInfo) string {
	syn := fn.Syntax()
	if syn == nil {
		return ""
	}
	var stmts []ast.Node
	ast.Inspect(syn, func(n ast.Node) bool {
		switch x := n.(type) {
		case *ast.FuncLit:
			if n != syn {
				return false
			}
		case *ast.ForStmt, *ast.RangeStmt:
			stmts = append(stmts, x)
		}
		return true
	})
	hdrRegion := func(s ast.Node) (token.Pos, token.Pos) {
		switch x := s.(type) {
		case *ast.ForStmt:
			return x.Pos(), x.Body.Lbrace
		case *ast.RangeStmt:
			return x.Pos(), x.Body.Lbrace
		}
		return token.NoPos, token.NoPos
	}
	text := func(s ast.Node) string {
		a, b := hdrRegion(s)
		return strings.TrimSpace(strings.TrimSuffix(strings.Join(strings.Fields(P.srcText(a, b)), " "), "{"))
	}
	// 1. an instruction of the header block lies in the header region of a loop statement
	var best ast.Node
	consider := func(p token.Pos) {
		if !p.IsValid() {
			return
		}
		for _, s := range stmts {
			a, b := hdrRegion(s)
			if a <= p && p <= b {
				if best == nil || (s.Pos() >= best.Pos() && s.End() <= best.End()) {
					best = s
				}
			}
		}
	}
	for _, in := range li.header.Instrs {
		if _, isPhi := in.(*ssa.Phi); isPhi {
			continue
		}
		if _, isDbg := in.(*ssa.DebugRef); isDbg {
			continue
		}
		consider(in.Pos())
		if v, ok := in.(*ssa.If); ok {
			consider(v.Cond.Pos())
		}
	}
	if best != nil {
		return text(best)
	}
	// 2. innermost loop statement whose body contains the non-phi positions of the body blocks
	lo, hi := token.NoPos, token.NoPos
	for b := range li.body {
		if b == li.header {
			continue
		}
		for _, in := range b.Instrs {
			if _, isPhi := in.(*ssa.Phi); isPhi {
				continue
			}
			if _, isDbg := in.(*ssa.DebugRef); isDbg {
				continue
			}
			if p := in.Pos(); p.IsValid() {
				if !lo.IsValid() || p < lo {
					lo = p
				}
				if p > hi {
					hi = p
				}
			}
		}
	}
	if lo.IsValid() {
		for _, s := range stmts {
			if s.Pos() <= lo && hi <= s.End() {
				if best == nil || (s.Pos() >= best.Pos() && s.End() <= best.End()) {
					best = s
				}
			}
		}
	}
	if best != nil && !strings.HasPrefix(li.header.Comment, "label") && (strings.Contains(li.header.Comment, "for") || strings.Contains(li.header.Comment, "range")) {
		return text(best)
	}
	// goto loop: named by its label
	if li.header.Comment != "" {
		return "label " + li.header.Comment
	}
	return ""
}

// verifyFunction builds all obligations of one function (after inferring
// simple loop invariants).
func verifyFunction(P *Program, U *Universe, fn *ssa.Function, props []string) *Enc {
	kept := inferAll(P, U, []*ssa.Function{fn}, P.OutDir+"/houdini", 0)[fn]
	return verifyWith(P, U, fn, props, kept)
}

func verifyWith(P *Program, U *Universe, fn *ssa.Function, props []string, kept map[loopKey][]*Clause) *Enc {
	if kept == nil {
		kept = map[loopKey][]*Clause{}
	}
	e := newEnc(P, U, fn)
	e.keptInv = kept
	runEncoding(e, fn, props)
	return e
}

func hasLoops(P *Program, fn *ssa.Function, depth int, seen map[*ssa.Function]bool) bool {
	if seen[fn] || depth > maxInlineDepth {
		return false
	}
	seen[fn] = true
	loops, _, _ := computeLoops(fn)
	if len(loops) > 0 {
		return true
	}
	for _, b := range fn.Blocks {
		for _, in := range b.Instrs {
			if c, ok := in.(ssa.CallInstruction); ok {
				if callee := c.Common().StaticCallee(); callee != nil && P.Funcs[funcKey(callee)] == callee {
					if hasLoops(P, callee, depth+1, seen) {
						return true
					}
				}
			}
			if mc, ok := in.(*ssa.MakeClosure); ok {
				if hasLoops(P, mc.Fn.(*ssa.Function), depth+1, seen) {
					return true
				}
			}
		}
	}
	return false
}

func runEncoding(e *Enc, fn *ssa.Function, props []string) {
	P := e.P
	defer func() {
		if r := recover(); r != nil {
			e.fail("internal error: %v", r)
		}
	}()
	sp := e.Spec
	f := e.newFrame(fn, 0)
	f.top = true
	f.props = props
	if sp != nil && len(sp.Props) > 0 && props == nil {
		f.props = sp.Props
	}
	if f.props == nil {
		// a function without a block of its own counts for the properties of its package
		f.props = P.funcProps(fn)
	}
	st := &State{heap: map[string]Term{}, epoch: 0}
	a0 := e.declare("alloc0", SInt)
	e.assume(ge(a0, intLit(1)), a0.S)
	st.alloc = a0
	f.entryPtr = st
	// parameters
	for _, p := range fn.Params {
		t := e.declare("p."+p.Name(), f.sortFor(p))
		f.vals[p] = t
		f.typeFacts(t, p.Type(), st)
		e.inputs = append(e.inputs, t.S)
	}
	for _, p := range fn.FreeVars {
		// free variables are pointers to captured cells
		t := e.declare("fv."+p.Name(), e.sortOf(p.Type()))
		f.vals[p] = t
		f.typeFacts(t, p.Type(), st)
		if t.Sort == SInt {
			e.assume(gt(t, intLit(0)), t.S) // the address of a captured variable
		}
	}
	reach := tTrue
	// implicit precondition: a pointer receiver is not nil
	if fn.Signature.Recv() != nil && len(fn.Params) > 0 {
		if _, isPtr := fn.Params[0].Type().Underlying().(*types.Pointer); isPtr {
			reach = and(reach, not(eq(f.vals[fn.Params[0]], intLit(0))))
		}
	}
	for i, p := range fn.Params {
		if i == 0 && fn.Signature.Recv() != nil {
			continue
		}
		if f.implicitNonNil(fn, p.Type()) && !nilOK(sp, p.Name()) {
			if t := f.vals[p]; t.Sort == SInt {
				reach = and(reach, not(eq(t, intLit(0))))
			} else if t.Sort == SIface {
				reach = and(reach, not(eq(ifTag(t), intLit(0))))
			}
		}
	}
	// requires
	entryEnv := func(cur, old *State) *SpecEnv {
		env := &SpecEnv{f: f, names: map[string]Term{}, types: map[string]types.Type{}, cur: cur, old: old}
		for _, p := range fn.Params {
			env.names[p.Name()] = f.vals[p]
			env.types[p.Name()] = p.Type()
		}
		for _, p := range fn.FreeVars {
			// a free variable denotes the captured variable's current content
			pt, ok := p.Type().Underlying().(*types.Pointer)
			if !ok {
				continue
			}
			if _, isS := pt.Elem().Underlying().(*types.Struct); isS {
				env.names[p.Name()] = f.loadStruct(f.vals[p], pt.Elem(), cur)
			} else {
				env.names[p.Name()] = f.loadLV(f.lvalOf(p, cur), cur)
			}
			env.types[p.Name()] = pt.Elem()
		}
		return env
	}
	if sp != nil {
		env := entryEnv(st, st)
		for _, r := range sp.Requires {
			t, err := env.evalBool(r.Expr)
			if err != nil {
				e.specError("%s: requires %q: %v", e.Key, r.Text, err)
				continue
			}
			reach = and(reach, t)
		}
	}
	if sp != nil && f.depth == 0 {
		for _, lm := range sp.Lemmas {
			env := entryEnv(st, st)
			t, err := env.evalBool(lm.Expr)
			if err != nil {
				e.specError("%s: lemma %q: %v", e.Key, lm.Text, err)
				continue
			}
			reach = and(reach, t)
			e.usedAssumes[e.Key+": lemma "+lm.Text] = true
		}
	}
	reach = e.define("r.entry", reach)
	// vacuity: the precondition is satisfiable
	if sp != nil && len(sp.Requires) > 0 {
		o := e.addOblig("cover", "requires satisfiable", f.props, P.position(fn.Pos()), reach, tFalse)
		if o != nil {
			o.Cover = true
		}
	}
	e.oldState = st.clone()
	f.run(reach, st)
	if e.unsupported != "" {
		return
	}
	// ensures at every return
	for i, r := range f.rets {
		env := entryEnv(r.state, e.oldState)
		bindResultNames(env, fn, r.results)
		// locals of the function may be named in postconditions (value at this return)
		retIdx := len(r.instr.Block().Instrs) - 1
		env.lookup = f.resolverAtPoint(r.instr.Block(), retIdx, nil, r.state)
		env.retInstr = r.instr
		if sp != nil {
			for _, en := range sp.Ensures {
				f.undefArbitrary = true
				t, err := env.evalBool(en.Expr)
				f.undefArbitrary = false
				if err != nil {
					e.specError("%s: ensures %q: %v", e.Key, en.Text, err)
					continue
				}
				name := en.Name
				if len(f.rets) > 1 {
					name = fmt.Sprintf("%s @return%d", en.Name, i+1)
				}
				e.addOblig("ensures", name, en.Props, P.position(r.instr.Pos()), r.reach, t)
			}
		}
	}
	// K7: every object of a type with a declared invariant that this function
	// allocated or stored into satisfies the invariant when the function returns
	for i, r := range f.rets {
		for _, tr := range e.touched {
			_, stT, _ := isStructPtr(tr.typ)
			n := stT.(*types.Named)
			key := n.Obj().Pkg().Name() + "." + n.Obj().Name()
			for _, inv := range P.Specs.TypeInvs[key] {
				env := &SpecEnv{f: f, names: map[string]Term{"self": tr.ref}, types: map[string]types.Type{"self": tr.typ}, cur: r.state, old: e.oldState, pkg: n.Obj().Pkg()}
				f.noInv = true
				t, err := env.evalBool(inv.Expr)
				f.noInv = false
				if err != nil {
					e.specError("wf %s: %v", key, err)
					continue
				}
				name := fmt.Sprintf("%s holds at return for the object %s (%s): %s", key, tr.how, strings.TrimPrefix(tr.ref.S, f.pfx), inv.Text)
				if len(f.rets) > 1 {
					name += fmt.Sprintf(" @return%d", i+1)
				}
				e.addOblig("wf", name, f.props, P.position(r.instr.Pos()), r.reach, t)
			}
		}
	}
	// explicit panics
	for _, p := range f.panics {
		goal := tFalse
		if mp := P.mayPanicClass(fn); mp != "" {
			if cls := P.Specs.PanicClasses[mp]; cls != nil {
				env := &SpecEnv{f: f, names: map[string]Term{"value": p.val}, types: map[string]types.Type{"value": types.NewInterfaceType(nil, nil)}, cur: p.state, old: e.oldState}
				t, err := env.evalBool(cls.Expr)
				if err == nil {
					goal = t
				} else {
					e.specError("%s: panicclass %s: %v", e.Key, mp, err)
				}
			}
		}
		txt, pos := f.obligName("panic", p.instr)
		e.addOblig("panic", txt, f.props, pos, p.reach, goal)
	}
	// cover: some return (or permitted panic) is reachable
	if len(f.rets) > 0 {
		var rs []Term
		for _, r := range f.rets {
			rs = append(rs, r.reach)
		}
		o := e.addOblig("cover", "exit reachable", f.props, P.position(fn.Pos()), or(rs...), tFalse)
		if o != nil {
			o.Cover = true
		}
	}
	// frame clauses: decided on the computed write effects (transitive over callees)
	if sp != nil && f.depth == 0 {
		for _, fc := range sp.Frames {
			if fc.Text == "deterministic" {
				hit := P.nondetSources(fn)
				o := &Oblig{Name: e.Key + "#frame[deterministic: no map iteration, clock, random source, process id or select reachable]", Kind: "frame", Props: fc.Props, Func: e.Key, Pos: fmt.Sprintf("%s:%d", filepath.Base(sp.File), fc.Line), Reach: tTrue, Goal: tFalse, enc: e}
				if len(hit) == 0 {
					o.Result = &SolveResult{Status: "unsat", Backend: "effects-analysis"}
				} else {
					o.Result = &SolveResult{Status: "unknown", Backend: "effects-analysis", Output: "reachable: " + strings.Join(hit, ", ")}
				}
				e.obligs = append(e.obligs, o)
				continue
			}
			if strings.HasPrefix(fc.Text, "callsonly ") {
				pats := strings.Fields(fc.Text)[1:]
				var hit []string
				for _, b := range fn.Blocks {
					for _, in := range b.Instrs {
						ci, ok := in.(ssa.CallInstruction)
						if !ok {
							continue
						}
						if _, isBuiltin := ci.Common().Value.(*ssa.Builtin); isBuiltin {
							continue // len, cap, append, ...: not calls of functions
						}
						name := calleeName(ci.Common())
						if sc := ci.Common().StaticCallee(); sc != nil && sc.Pkg != nil && P.Funcs[funcKey(sc)] != sc {
							name = externName(sc)
						}
						ok2 := false
						for _, pat := range pats {
							if globMatch(pat, name) {
								ok2 = true
							}
						}
						if !ok2 {
							hit = append(hit, name)
						}
					}
				}
				sort.Strings(hit)
				o := &Oblig{Name: e.Key + "#frame[" + fc.Text + "]", Kind: "frame", Props: fc.Props, Func: e.Key, Pos: fmt.Sprintf("%s:%d", filepath.Base(sp.File), fc.Line), Reach: tTrue, Goal: tFalse, enc: e}
				if len(hit) == 0 {
					o.Result = &SolveResult{Status: "unsat", Backend: "call-graph"}
				} else {
					o.Result = &SolveResult{Status: "unknown", Backend: "call-graph", Output: "also calls: " + strings.Join(hit, ", ")}
				}
				e.obligs = append(e.obligs, o)
				continue
			}
			if strings.HasPrefix(fc.Text, "calledby ") {
				// every static call of this function in the program is in one of the listed functions
				pats := strings.Fields(fc.Text)[1:]
				var hit []string
				for key, g := range P.Funcs {
					for _, b := range g.Blocks {
						for _, in := range b.Instrs {
							ci, ok := in.(ssa.CallInstruction)
							if !ok {
								continue
							}
							callee := ci.Common().StaticCallee()
							if callee == nil {
								if mc, ok := ci.Common().Value.(*ssa.MakeClosure); ok {
									callee, _ = mc.Fn.(*ssa.Function)
								}
							}
							if callee != fn && (callee == nil || boundMethodTarget(callee) != fn) {
								continue
							}
							ok2 := false
							for _, pat := range pats {
								if globMatch(pat, key) {
									ok2 = true
								}
							}
							if !ok2 {
								hit = append(hit, key)
							}
						}
					}
				}
				sort.Strings(hit)
				o := &Oblig{Name: e.Key + "#frame[" + fc.Text + "]", Kind: "frame", Props: fc.Props, Func: e.Key, Pos: fmt.Sprintf("%s:%d", filepath.Base(sp.File), fc.Line), Reach: tTrue, Goal: tFalse, enc: e}
				if len(hit) == 0 {
					o.Result = &SolveResult{Status: "unsat", Backend: "call-graph"}
				} else {
					o.Result = &SolveResult{Status: "unknown", Backend: "call-graph", Output: "also called from: " + strings.Join(hit, ", ")}
				}
				e.obligs = append(e.obligs, o)
				continue
			}
			if strings.HasPrefix(fc.Text, "region ") {
				// backing arrays of slices: decided by the region analysis
				pats := strings.Fields(fc.Text)[1:]
				hit := regionPatternHit(P.regions().written(fn), pats)
				o := &Oblig{Name: e.Key + "#frame[preserves " + fc.Text + "]", Kind: "frame", Props: fc.Props, Func: e.Key, Pos: fmt.Sprintf("%s:%d", filepath.Base(sp.File), fc.Line), Reach: tTrue, Goal: tFalse, enc: e}
				if len(hit) == 0 {
					o.Result = &SolveResult{Status: "unsat", Backend: "effects-analysis"}
				} else {
					o.Result = &SolveResult{Status: "unknown", Backend: "effects-analysis", Output: "may write elements of: " + strings.Join(hit, ", ")}
				}
				e.obligs = append(e.obligs, o)
				continue
			}
			ef := P.effectsOf(fn, e.U)
			var hit []string
			pats := strings.Fields(fc.Text)
			if ef.All {
				hit = append(hit, "<anything: "+ef.Why+">")
			}
			for fam := range ef.Fams {
				if strings.HasPrefix(fam, "L.") || fam == "Iter.pos" {
					continue
				}
				for _, pat := range pats {
					if globMatch(pat, fam) {
						hit = append(hit, fam)
					}
				}
			}
			sort.Strings(hit)
			o := &Oblig{Name: e.Key + "#frame[preserves " + fc.Text + "]", Kind: "frame", Props: fc.Props, Func: e.Key, Pos: fmt.Sprintf("%s:%d", filepath.Base(sp.File), fc.Line), Reach: tTrue, Goal: tFalse, enc: e}
			if len(hit) == 0 {
				o.Result = &SolveResult{Status: "unsat", Backend: "effects-analysis"}
			} else {
				o.Result = &SolveResult{Status: "unknown", Backend: "effects-analysis", Output: "may write: " + strings.Join(hit, ", ")}
			}
			e.obligs = append(e.obligs, o)
		}
	}
	// packages that declare "default variants": every loop that is not a range
	// loop has a variant (decreases) or says why none is claimed (unbounded)
	if f.depth == 0 && fn.Pkg != nil {
		if _, need := P.Specs.NeedVariants[fn.Pkg.Pkg.Name()]; need {
			var lis []*loopInfo
			for _, li := range f.loops {
				lis = append(lis, li)
			}
			sort.Slice(lis, func(i, j int) bool { return lis[i].ordinal < lis[j].ordinal })
			for _, li := range lis {
				hdr := P.loopHeaderText(fn, li)
				if strings.Contains(hdr, " range ") {
					continue // terminates by construction
				}
				ls := f.matchLoop(sp, li)
				if ls != nil && (len(ls.Decreases) > 0 || ls.Unbounded != "") {
					if ls.Unbounded != "" {
						e.waived = append(e.waived, fmt.Sprintf("%s#terminates[loop %q]: %s", e.Key, hdr, ls.Unbounded))
					}
					continue
				}
				name := fmt.Sprintf("loop %q has a variant", hdr)
				if hdr == "" {
					name = fmt.Sprintf("loop #%d (formed by goto) has a variant", li.ordinal)
				}
				e.addOblig("terminates", name, f.props, P.position(li.header.Instrs[0].Pos()), tTrue, tFalse)
			}
		}
	}
	// unused loop specs / anchors are failed obligations (the contract no longer covers the code)
	if sp != nil {
		for _, a := range sp.Sites {
			if !a.Used {
				e.addOblig("resolve", "site "+a.Name+" = "+a.Anchor, f.props, sp.File, tTrue, tFalse)
			}
		}
		for _, a := range sp.Asserts {
			if !a.Used {
				e.addOblig("resolve", "assert at "+a.Anchor, f.props, sp.File, tTrue, tFalse)
			}
		}
		for _, ls := range sp.Loops {
			if !ls.Used {
				e.addOblig("resolve", "loop "+ls.Header, f.props, fmt.Sprintf("%s:%d", sp.File, ls.Line), tTrue, tFalse)
			}
		}
	}
}

// globMatch: '*' matches any run of characters.
func globMatch(pat, s string) bool {
	if pat == "*" {
		return true
	}
	parts := strings.Split(pat, "*")
	if len(parts) == 1 {
		return pat == s
	}
	if !strings.HasPrefix(s, parts[0]) {
		return false
	}
	s = s[len(parts[0]):]
	for i := 1; i < len(parts)-1; i++ {
		k := strings.Index(s, parts[i])
		if k < 0 {
			return false
		}
		s = s[k+len(parts[i]):]
	}
	return strings.HasSuffix(s, parts[len(parts)-1])
}

// nondetSources lists sources of nondeterminism reachable from fn (static
// call graph): iteration over a map, select, clocks, random numbers, pids.
func (P *Program) nondetSources(fn *ssa.Function) []string {
	seen := map[*ssa.Function]bool{}
	var out []string
	ra := P.regions()
	var walk func(f *ssa.Function)
	walk = func(f *ssa.Function) {
		if seen[f] {
			return
		}
		seen[f] = true
		for _, b := range f.Blocks {
			for _, in := range b.Instrs {
				switch x := in.(type) {
				case *ssa.Range:
					if _, isMap := x.X.Type().Underlying().(*types.Map); isMap {
						out = append(out, funcKey(f)+": range over a map")
					}
				case *ssa.Select:
					out = append(out, funcKey(f)+": select")
				case *ssa.Go:
					out = append(out, funcKey(f)+": go statement")
				case ssa.CallInstruction:
					if sc := x.Common().StaticCallee(); sc != nil && P.Funcs[funcKey(sc)] != sc {
						n := externName(sc)
						for _, bad := range []string{"time.", "math/rand.", "os.Getpid", "os.Environ", "crypto/rand."} {
							if strings.HasPrefix(n, bad) {
								out = append(out, funcKey(f)+": call of "+n)
							}
						}
					}
					for _, t := range ra.targets(f, x.Common()) {
						walk(t)
					}
				}
			}
		}
	}
	walk(fn)
	sort.Strings(out)
	return out
}
