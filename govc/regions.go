package main

import (
	"go/types"
	"sort"
	"strings"

	"golang.org/x/tools/go/ssa"
)

// Region analysis (K6 for slice backing arrays): a context-insensitive,
// flow-insensitive points-to analysis restricted to slices.  Abstract
// arrays are
//   field:<pkg.Type.field>   the arrays a struct field holds on entry
//   fresh:<fn>               arrays allocated by fn (make, literals, grown appends)
//   ext:<fn>.<param>         arrays handed to an exported function from outside
//   global:<name>, mapval, unknown
// W*(fn) is the set of abstract arrays fn or its callees may write an
// element of.  A "preserves region <pattern>" clause requires that no
// matching array (nor "unknown") is in W*(fn).

type regionAnalysis struct {
	P       *Program
	pts     map[ssa.Value]map[string]bool
	flows   map[string]map[string]bool // contents stored into field:X / cell
	writes  map[*ssa.Function]map[string]bool
	total   map[*ssa.Function]map[string]bool
	calls   map[*ssa.Function][]*ssa.Function
	fvBind  map[*ssa.FreeVar][]ssa.Value
	rets    map[*ssa.Function][]ssa.Value
	args    map[*ssa.Parameter][]ssa.Value
	changed bool
}

func isSeq(t types.Type) bool {
	switch x := t.Underlying().(type) {
	case *types.Slice:
		return true
	case *types.Pointer:
		_, ok := x.Elem().Underlying().(*types.Array)
		return ok
	}
	return false
}

func (P *Program) regions() *regionAnalysis {
	if P.regionsCache != nil {
		return P.regionsCache
	}
	ra := &regionAnalysis{P: P, pts: map[ssa.Value]map[string]bool{}, flows: map[string]map[string]bool{},
		writes: map[*ssa.Function]map[string]bool{}, total: map[*ssa.Function]map[string]bool{},
		calls: map[*ssa.Function][]*ssa.Function{}, fvBind: map[*ssa.FreeVar][]ssa.Value{}, rets: map[*ssa.Function][]ssa.Value{}, args: map[*ssa.Parameter][]ssa.Value{}}
	P.regionsCache = ra
	// structural facts: call edges, argument bindings, closure bindings, returns
	for _, fn := range P.Funcs {
		for _, b := range fn.Blocks {
			for _, in := range b.Instrs {
				switch x := in.(type) {
				case *ssa.MakeClosure:
					cf := x.Fn.(*ssa.Function)
					for i, bnd := range x.Bindings {
						if i < len(cf.FreeVars) {
							ra.fvBind[cf.FreeVars[i]] = append(ra.fvBind[cf.FreeVars[i]], bnd)
						}
					}
				case *ssa.Return:
					ra.rets[fn] = append(ra.rets[fn], x.Results...)
				}
				if ci, ok := in.(ssa.CallInstruction); ok {
					for _, callee := range ra.targets(fn, ci.Common()) {
						ra.calls[fn] = append(ra.calls[fn], callee)
						cargs := ci.Common().Args
						params := callee.Params
						if ci.Common().IsInvoke() {
							// receiver is the interface value: skip param 0
							params = params[1:]
						}
						for i, p := range params {
							if i < len(cargs) {
								ra.args[p] = append(ra.args[p], cargs[i])
							}
						}
					}
				}
			}
		}
	}
	// fixpoint
	for iter := 0; iter < 30; iter++ {
		ra.changed = false
		for _, fn := range P.Funcs {
			ra.scan(fn)
		}
		if !ra.changed {
			break
		}
	}
	// transitive write sets
	for _, fn := range P.Funcs {
		ra.total[fn] = map[string]bool{}
		for r := range ra.writes[fn] {
			ra.total[fn][r] = true
		}
	}
	for ch := true; ch; {
		ch = false
		for _, fn := range P.Funcs {
			for _, c := range ra.calls[fn] {
				for r := range ra.total[c] {
					if !ra.total[fn][r] {
						ra.total[fn][r] = true
						ch = true
					}
				}
			}
			if ef := P.effectsOf(fn, newUniverse()); ef.All && !ra.total[fn]["unknown"] {
				ra.total[fn]["unknown"] = true
				ch = true
			}
		}
	}
	return ra
}

func (ra *regionAnalysis) targets(fn *ssa.Function, c *ssa.CallCommon) []*ssa.Function {
	P := ra.P
	var out []*ssa.Function
	if c.IsInvoke() {
		if iface, ok := c.Value.Type().Underlying().(*types.Interface); ok {
			for _, t := range P.implementers(iface) {
				if sel := P.SSA.MethodSets.MethodSet(t).Lookup(c.Method.Pkg(), c.Method.Name()); sel != nil {
					if m := P.SSA.MethodValue(sel); m != nil && P.Funcs[funcKey(m)] == m {
						out = append(out, m)
					}
				}
			}
		}
		return out
	}
	switch v := c.Value.(type) {
	case *ssa.Function:
		if P.Funcs[funcKey(v)] == v {
			out = append(out, v)
		}
	case *ssa.MakeClosure:
		out = append(out, v.Fn.(*ssa.Function))
	case *ssa.Builtin:
	default:
		pkg := fn.Pkg
		if pkg == nil && fn.Parent() != nil {
			pkg = fn.Parent().Pkg
		}
		if pkg != nil {
			if cs, closed := P.closuresOfSig(pkg, c.Signature()); closed {
				out = append(out, cs...)
			}
		}
	}
	return out
}

func (ra *regionAnalysis) add(v ssa.Value, rs ...string) {
	m := ra.pts[v]
	if m == nil {
		m = map[string]bool{}
		ra.pts[v] = m
	}
	for _, r := range rs {
		if !m[r] {
			m[r] = true
			ra.changed = true
		}
	}
}

func (ra *regionAnalysis) addAll(v ssa.Value, from map[string]bool) {
	for r := range from {
		ra.add(v, r)
	}
}

func (ra *regionAnalysis) flow(region string, from map[string]bool) {
	m := ra.flows[region]
	if m == nil {
		m = map[string]bool{}
		ra.flows[region] = m
	}
	for r := range from {
		if !m[r] {
			m[r] = true
			ra.changed = true
		}
	}
}

func fieldRegion(t types.Type, i int) string {
	return "field:" + typeName(t) + "." + t.Underlying().(*types.Struct).Field(i).Name()
}

// get computes the abstract arrays a slice-typed value may denote.
func (ra *regionAnalysis) get(v ssa.Value) map[string]bool {
	if m, ok := ra.pts[v]; ok {
		return m
	}
	return map[string]bool{}
}

func (ra *regionAnalysis) write(fn *ssa.Function, rs map[string]bool) {
	m := ra.writes[fn]
	if m == nil {
		m = map[string]bool{}
		ra.writes[fn] = m
	}
	for r := range rs {
		if !m[r] {
			m[r] = true
			ra.changed = true
		}
	}
}

// cellRegion names the storage of a local/captured/global variable.
func cellOf(addr ssa.Value) (string, bool) {
	switch x := addr.(type) {
	case *ssa.Alloc:
		if x.Parent() != nil {
			return "cell:" + funcKey(x.Parent()) + "." + x.Name(), true
		}
	case *ssa.Global:
		return "global:" + x.Pkg.Pkg.Name() + "." + x.Name(), true
	}
	return "", false
}

func (ra *regionAnalysis) scan(fn *ssa.Function) {
	P := ra.P
	for i, p := range fn.Params {
		if !isSeq(p.Type()) {
			continue
		}
		for _, a := range ra.args[p] {
			ra.addAll(p, ra.get(a))
		}
		if fn.Object() != nil && fn.Object().Exported() || len(ra.args[p]) == 0 && fn.Parent() == nil {
			ra.add(p, "ext:"+fn.Name()+"."+p.Name())
		}
		_ = i
	}
	for _, fv := range fn.FreeVars {
		// free variables are addresses of captured cells: handled at loads
		_ = fv
	}
	for _, b := range fn.Blocks {
		for _, in := range b.Instrs {
			switch x := in.(type) {
			case *ssa.Phi:
				if isSeq(x.Type()) {
					for _, e := range x.Edges {
						ra.addAll(x, ra.get(e))
					}
				}
			case *ssa.Slice:
				if isSeq(x.Type()) {
					if isSeq(x.X.Type()) {
						ra.addAll(x, ra.get(x.X))
					} else {
						ra.add(x, "fresh:"+funcKey(fn)) // slice of a string
					}
				}
			case *ssa.ChangeType:
				if isSeq(x.Type()) {
					ra.addAll(x, ra.get(x.X))
				}
			case *ssa.Convert:
				if isSeq(x.Type()) {
					ra.add(x, "fresh:"+funcKey(fn))
				}
			case *ssa.MakeSlice:
				ra.add(x, "fresh:"+funcKey(fn))
			case *ssa.Alloc:
				if isSeq(x.Type()) {
					ra.add(x, "fresh:"+funcKey(fn)) // pointer to a local array
				}
			case *ssa.TypeAssert:
				t := x.AssertedType
				if x.CommaOk {
					break
				}
				if isSeq(t) {
					ra.add(x, "unboxed:"+typeName(t))
				}
			case *ssa.Extract:
				if isSeq(x.Type()) {
					switch tv := x.Tuple.(type) {
					case *ssa.Call:
						ra.callResult(fn, x, tv.Common(), x.Index)
					case *ssa.TypeAssert:
						ra.add(x, "unboxed:"+typeName(x.Type()))
					default:
						ra.add(x, "unknown")
					}
				}
			case *ssa.Lookup:
				if isSeq(x.Type()) {
					ra.add(x, "mapval")
				}
			case *ssa.Field:
				if isSeq(x.Type()) {
					ra.add(x, "structval:"+typeName(x.X.Type())+"."+x.X.Type().Underlying().(*types.Struct).Field(x.Field).Name())
				}
			case *ssa.UnOp:
				if !isSeq(x.Type()) || x.Op.String() != "*" {
					break
				}
				switch a := x.X.(type) {
				case *ssa.FieldAddr:
					st := a.X.Type().Underlying().(*types.Pointer).Elem()
					r := fieldRegion(st, a.Field)
					ra.add(x, r)
					ra.addAll(x, ra.flows[r])
				case *ssa.IndexAddr:
					for r := range ra.get(a.X) {
						ra.add(x, "elem("+r+")")
						ra.addAll(x, ra.flows["elem("+r+")"])
					}
				case *ssa.FreeVar:
					for _, bnd := range ra.fvBind[a] {
						if c, ok := cellOf(bnd); ok {
							ra.addAll(x, ra.flows[c])
						}
					}
					ra.addAll(x, ra.flows["fv:"+funcKey(fn)+"."+a.Name()])
				default:
					if c, ok := cellOf(x.X); ok {
						ra.addAll(x, ra.flows[c])
						if _, isG := x.X.(*ssa.Global); isG {
							ra.add(x, c)
						}
					} else {
						ra.add(x, "unknown")
					}
				}
			case *ssa.Store:
				// 1. a slice value stored somewhere: the location may now hold those arrays
				if isSeq(x.Val.Type()) {
					switch a := x.Addr.(type) {
					case *ssa.FieldAddr:
						st := a.X.Type().Underlying().(*types.Pointer).Elem()
						ra.flow(fieldRegion(st, a.Field), ra.get(x.Val))
					case *ssa.IndexAddr:
						for r := range ra.get(a.X) {
							ra.flow("elem("+r+")", ra.get(x.Val))
						}
					case *ssa.FreeVar:
						for _, bnd := range ra.fvBind[a] {
							if c, ok := cellOf(bnd); ok {
								ra.flow(c, ra.get(x.Val))
							}
						}
						ra.flow("fv:"+funcKey(fn)+"."+a.Name(), ra.get(x.Val))
					default:
						if c, ok := cellOf(x.Addr); ok {
							ra.flow(c, ra.get(x.Val))
						}
					}
				}
				// 2. an element write
				if ia, ok := x.Addr.(*ssa.IndexAddr); ok {
					ra.write(fn, ra.get(ia.X))
				} else if fa, ok := x.Addr.(*ssa.FieldAddr); ok {
					if ia, ok := fa.X.(*ssa.IndexAddr); ok {
						ra.write(fn, ra.get(ia.X))
					}
				}
			case *ssa.Call:
				c := x.Common()
				if bi, ok := c.Value.(*ssa.Builtin); ok {
					switch bi.Name() {
					case "append":
						// may write in place beyond len, or return a fresh array
						ra.write(fn, ra.get(c.Args[0]))
						ra.addAll(x, ra.get(c.Args[0]))
						ra.add(x, "fresh:"+funcKey(fn))
					case "copy":
						ra.write(fn, ra.get(c.Args[0]))
					}
					break
				}
				if sc := c.StaticCallee(); sc != nil && P.Funcs[funcKey(sc)] != sc {
					// library function
					en := externName(sc)
					if strings.HasPrefix(en, "sort.") || (!externPure(en) && externEffects(en) == nil) {
						// a sorting function, or a library function without a model:
						// it may write the elements of any slice it is handed (also
						// one boxed in an interface value, as for sort.Slice)
						for _, a := range c.Args {
							v := a
							if mi, ok := v.(*ssa.MakeInterface); ok {
								v = mi.X
							}
							if isSeq(v.Type()) {
								ra.write(fn, ra.get(v))
							}
						}
					}
					if isSeq(x.Type()) {
						ra.add(x, "fresh:"+funcKey(fn))
					}
					break
				}
				if isSeq(x.Type()) {
					ra.callResult(fn, x, c, 0)
				}
			}
		}
	}
}

func (ra *regionAnalysis) callResult(fn *ssa.Function, dst ssa.Value, c *ssa.CallCommon, idx int) {
	ts := ra.targets(fn, c)
	if len(ts) == 0 {
		if sc := c.StaticCallee(); sc != nil && ra.P.Funcs[funcKey(sc)] != sc {
			ra.add(dst, "fresh:"+funcKey(fn))
			return
		}
		ra.add(dst, "unknown")
		return
	}
	for _, t := range ts {
		n := t.Signature.Results().Len()
		for i, r := range ra.rets[t] {
			if n > 0 && i%n == idx {
				ra.addAll(dst, ra.get(r))
			}
		}
	}
}

func (ra *regionAnalysis) written(fn *ssa.Function) []string {
	var out []string
	for r := range ra.total[fn] {
		out = append(out, r)
	}
	sort.Strings(out)
	return out
}

// regionPatternHit lists written regions matching a pattern list; "unknown"
// always counts.
func regionPatternHit(written []string, pats []string) []string {
	var hit []string
	for _, w := range written {
		if w == "unknown" {
			hit = append(hit, w)
			continue
		}
		for _, p := range pats {
			if globMatch(p, w) || strings.HasPrefix(w, "elem(") && globMatch(p, strings.TrimSuffix(strings.TrimPrefix(w, "elem("), ")")) {
				hit = append(hit, w)
				break
			}
		}
	}
	return hit
}
