package main

import (
	"fmt"
	"go/constant"
	"go/token"
	"go/types"
	"strings"

	"golang.org/x/tools/go/ssa"
)

// immutableGlobalMap: v is a load of a package-level map that is only
// written by its initialiser.
func immutableGlobalMap(P *Program, v ssa.Value) *ssa.Global {
	u, ok := v.(*ssa.UnOp)
	if !ok || u.Op != token.MUL {
		return nil
	}
	g, ok := u.X.(*ssa.Global)
	if !ok {
		return nil
	}
	return immutableMapGlobal(P, g)
}

// immutableMapGlobal: g is a package-level map only written by its initialiser.
func immutableMapGlobal(P *Program, g *ssa.Global) *ssa.Global {
	if P.writtenGlobals[g] {
		return nil
	}
	if _, ok := g.Type().Underlying().(*types.Pointer).Elem().Underlying().(*types.Map); !ok {
		return nil
	}
	if P.mapUpdated == nil {
		P.mapUpdated = map[*ssa.Global]bool{}
		for _, fn := range P.Funcs {
			if fn.Name() == "init" && fn.Parent() == nil {
				continue
			}
			for _, b := range fn.Blocks {
				for _, in := range b.Instrs {
					var m ssa.Value
					switch x := in.(type) {
					case *ssa.MapUpdate:
						m = x.Map
					case *ssa.Call:
						if bi, ok := x.Call.Value.(*ssa.Builtin); ok && bi.Name() == "delete" {
							m = x.Call.Args[0]
						}
					}
					if m != nil {
						if lu, ok := m.(*ssa.UnOp); ok {
							if gg, ok := lu.X.(*ssa.Global); ok {
								P.mapUpdated[gg] = true
							}
						}
					}
				}
			}
		}
	}
	if P.mapUpdated[g] {
		return nil
	}
	return g
}

// globalMapLookup models an immutable package-level map as a pair of
// functions axiomatised from its initialiser.
func (f *Frame) globalMapLookup(g *ssa.Global, key Term, ks, vs Sort, mt *types.Map) (Term, Term) {
	e := f.e
	base := "gm." + sanitize(g.Pkg.Pkg.Name()+"."+g.Name())
	hasF, valF := base+".has", base+".val"
	if _, ok := e.U.funs[hasF]; !ok {
		e.U.declareFun(hasF, []Sort{ks}, SBool)
		e.U.declareFun(valF, []Sort{ks}, vs)
		// entries from the package initialiser
		init := g.Pkg.Func("init")
		var keys, vals []Term
		if init != nil {
			// find the map value stored into the global
			var mv ssa.Value
			for _, b := range init.Blocks {
				for _, in := range b.Instrs {
					if st, ok := in.(*ssa.Store); ok && st.Addr == g {
						mv = st.Val
					}
				}
			}
			if mv != nil {
				for _, b := range init.Blocks {
					for _, in := range b.Instrs {
						if mu, ok := in.(*ssa.MapUpdate); ok && mu.Map == mv {
							kc, ok1 := mu.Key.(*ssa.Const)
							vc, ok2 := mu.Value.(*ssa.Const)
							if !ok1 || !ok2 {
								e.warn("global map %s: non-constant entry", g.Name())
								continue
							}
							keys = append(keys, constAs(e.U, kc, ks))
							vals = append(vals, constAs(e.U, vc, vs))
						}
					}
				}
			}
		}
		var hasAlts []string
		var lines []string
		for i := range keys {
			hasAlts = append(hasAlts, fmt.Sprintf("(= k %s)", keys[i].S))
			lines = append(lines, fmt.Sprintf("(assert (= (%s %s) %s))", valF, keys[i].S, vals[i].S))
		}
		body := "false"
		if len(hasAlts) > 0 {
			body = "(or " + strings.Join(hasAlts, " ") + ")"
			if len(hasAlts) == 1 {
				body = hasAlts[0]
			}
		}
		lines = append(lines, fmt.Sprintf("(assert (forall ((k %s)) (! (= (%s k) %s) :pattern ((%s k)))))", ks, hasF, body, hasF))
		e.U.axiom(strings.Join(lines, "\n"), hasF, valF)
	}
	return app(SBool, hasF, key), app(vs, valF, key)
}

func constAs(u *Universe, c *ssa.Const, s Sort) Term {
	switch s {
	case SStr:
		return u.strLit(constant.StringVal(c.Value))
	case SBool:
		return boolLit(constant.BoolVal(c.Value))
	case SBV:
		v, _ := constant.Uint64Val(constant.ToInt(c.Value))
		return bvLit(v)
	}
	v, _ := constant.Int64Val(constant.ToInt(c.Value))
	return intLit(v)
}
