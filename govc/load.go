package main

import (
	"fmt"
	"go/ast"
	"go/token"
	"go/types"
	"os"
	"path/filepath"
	"sort"
	"strings"

	"golang.org/x/tools/go/packages"
	"golang.org/x/tools/go/ssa"
	"golang.org/x/tools/go/ssa/ssautil"
)

// Program is the loaded repository: typed syntax, SSA and contracts.
type Program struct {
	Repo    string
	Fset    *token.FileSet
	Pkgs    []*packages.Package
	SSA     *ssa.Program
	SSAPkgs map[string]*ssa.Package  // by package name (ast, parser, ...)
	Funcs   map[string]*ssa.Function // key: "pkg.RelName" e.g. "interp.(*ExecEnv).Get"
	Specs   *Specs

	// global facts computed once
	writtenGlobals map[*ssa.Global]bool
	concreteTypes  []types.Type // all concrete named types (and pointers) with method sets, for interface tests
	effects        map[*ssa.Function]*Effects
	srcCache       map[string][]byte
	mapUpdated     map[*ssa.Global]bool
	OutDir         string
	mutators       map[*ssa.Function]map[string]bool
	regionsCache   *regionAnalysis
	Yacc           []*yaccInfo
	panicCls       map[*ssa.Function]string
	writtenFams    map[string]bool
	sentFields     map[string]bool
}

func (P *Program) readSrc(name string) []byte {
	if P.srcCache == nil {
		P.srcCache = map[string][]byte{}
	}
	if d, ok := P.srcCache[name]; ok {
		return d
	}
	for _, y := range P.Yacc {
		if y.Path == name {
			P.srcCache[name] = []byte(y.Overlay)
			return P.srcCache[name]
		}
	}
	d, _ := os.ReadFile(name)
	P.srcCache[name] = d
	return d
}

// srcText returns the source text between two positions.
func (P *Program) srcText(a, b token.Pos) string {
	if !a.IsValid() || !b.IsValid() {
		return ""
	}
	pa, pb := P.Fset.Position(a), P.Fset.Position(b)
	if P.srcCache == nil {
		P.srcCache = map[string][]byte{}
	}
	data := P.readSrc(pa.Filename)
	if pa.Offset < 0 || pb.Offset > len(data) || pa.Offset > pb.Offset {
		return ""
	}
	return string(data[pa.Offset:pb.Offset])
}

func init() { _ = ast.Inspect }

const modPath = "github.com/hattya/go.sh"

func loadProgram(repo string) (*Program, error) {
	cfg := &packages.Config{
		Mode:       packages.LoadAllSyntax,
		Dir:        repo,
		BuildFlags: []string{"-tags=verif"},
		Env:        append(os.Environ(), "GOFLAGS=-mod=mod", "GOPROXY=off", "GOSUMDB=off", "GOTOOLCHAIN=local", "CGO_ENABLED=0"),
	}
	// semantic actions of the two goyacc parsers, extracted mechanically
	yaccs := []*yaccInfo{
		extractYacc(filepath.Join(repo, "interp"), "interp", "arith.go", "arith.go.y"),
		extractYacc(filepath.Join(repo, "parser"), "parser", "parser.go", "parser.go.y"),
	}
	cfg.Overlay = map[string][]byte{}
	for _, y := range yaccs {
		if y.Overlay != "" {
			cfg.Overlay[y.Path] = []byte(y.Overlay)
		}
	}
	for _, y := range yaccs {
		for _, a := range y.Actions {
			actionNames[fmt.Sprintf("%s.yyAction%d", y.Pkg, a.N)] = y.Pkg + ".action<" + y.production(a.N) + ">"
		}
	}
	pkgs, err := packages.Load(cfg, "./...")
	if err != nil {
		return nil, err
	}
	var errs []string
	for _, p := range pkgs {
		for _, e := range p.Errors {
			errs = append(errs, e.Error())
		}
	}
	if len(errs) > 0 {
		return nil, fmt.Errorf("load errors: %s", strings.Join(errs, "; "))
	}
	prog, spkgs := ssautil.AllPackages(pkgs, ssa.GlobalDebug|ssa.InstantiateGenerics)
	prog.Build()
	P := &Program{
		Yacc:    yaccs,
		Repo:    repo,
		Pkgs:    pkgs,
		SSA:     prog,
		SSAPkgs: map[string]*ssa.Package{},
		Funcs:   map[string]*ssa.Function{},
	}
	if len(pkgs) > 0 {
		P.Fset = pkgs[0].Fset
	}
	for i, p := range pkgs {
		if spkgs[i] == nil {
			continue
		}
		P.SSAPkgs[p.Name] = spkgs[i]
	}
	// enumerate all functions of the repo packages (including methods and closures)
	all := ssautil.AllFunctions(prog)
	for fn := range all {
		if fn.Pkg == nil || fn.Synthetic != "" {
			continue
		}
		if !strings.HasPrefix(fn.Pkg.Pkg.Path(), modPath) {
			continue
		}
		P.Funcs[funcKey(fn)] = fn
	}
	P.computeGlobals()
	return P, nil
}

// funcKey names a function as "pkg.RelName".
// actionNames maps extracted action functions (pkg.yyActionN) to a name
// built from their production, so that obligation names survive renumbering.
var actionNames = map[string]string{}

func funcKey(fn *ssa.Function) string {
	if fn.Pkg != nil && strings.HasPrefix(fn.Name(), "yyAction") {
		if n, ok := actionNames[fn.Pkg.Pkg.Name()+"."+fn.Name()]; ok {
			return n
		}
	}
	if fn.Pkg == nil {
		if fn.Parent() != nil {
			return funcKey(fn.Parent()) + "$anon"
		}
		return fn.String()
	}
	return fn.Pkg.Pkg.Name() + "." + fn.RelString(fn.Pkg.Pkg)
}

func (P *Program) sortedFuncKeys() []string {
	var ks []string
	for k := range P.Funcs {
		ks = append(ks, k)
	}
	sort.Strings(ks)
	return ks
}

func (P *Program) computeGlobals() {
	P.writtenGlobals = map[*ssa.Global]bool{}
	for _, fn := range P.Funcs {
		if fn.Name() == "init" && fn.Parent() == nil {
			continue
		}
		for _, b := range fn.Blocks {
			for _, in := range b.Instrs {
				if st, ok := in.(*ssa.Store); ok {
					if g, ok := st.Addr.(*ssa.Global); ok {
						P.writtenGlobals[g] = true
					}
				}
				// address escapes (passed to a call, stored, ...) - treat as written
				for _, op := range in.Operands(nil) {
					if op == nil || *op == nil {
						continue
					}
					if g, ok := (*op).(*ssa.Global); ok {
						switch x := in.(type) {
						case *ssa.UnOp:
							_ = x // load
						case *ssa.Store:
							if x.Val == g {
								P.writtenGlobals[g] = true
							}
						case *ssa.DebugRef:
						default:
							P.writtenGlobals[g] = true
						}
					}
				}
			}
		}
	}
}

func (P *Program) position(pos token.Pos) string {
	if !pos.IsValid() {
		return "?"
	}
	p := P.Fset.Position(pos)
	fn := p.Filename
	if strings.HasPrefix(fn, P.Repo+"/") {
		fn = fn[len(P.Repo)+1:]
	}
	return fmt.Sprintf("%s:%d", fn, p.Line)
}

// exprText returns the source text of the syntax node enclosing pos..end,
// normalised to one line; used to name obligations by what they are.
func (P *Program) nodeText(n ast.Node) string {
	if n == nil {
		return ""
	}
	start := P.Fset.Position(n.Pos())
	end := P.Fset.Position(n.End())
	data := P.readSrc(start.Filename)
	var err error
	if err != nil || start.Offset < 0 || end.Offset > len(data) || start.Offset > end.Offset {
		return ""
	}
	s := string(data[start.Offset:end.Offset])
	return strings.Join(strings.Fields(s), " ")
}

// enclosing finds the innermost syntax node of one of the wanted kinds
// containing pos in the function's syntax.
func enclosingNode(root ast.Node, pos token.Pos, want func(ast.Node) bool) ast.Node {
	var best ast.Node
	if root == nil {
		return nil
	}
	ast.Inspect(root, func(n ast.Node) bool {
		if n == nil {
			return false
		}
		if n.Pos() <= pos && pos < n.End() {
			if want(n) {
				best = n
			}
			return true
		}
		return false
	})
	return best
}
