package main

import (
	"bytes"
	"context"
	"fmt"
	"os"
	"os/exec"
	"path/filepath"
	"regexp"
	"strings"
	"sync"
	"time"
)

type SolveResult struct {
	Status  string // unsat, sat, unknown, timeout, error
	Backend string
	Ms      int64
	Model   map[string]string
	Output  string
	Query   string // path, when dumped
}

type solverDef struct {
	name string
	argv func(file string, timeoutS int, seed int) []string
}

var solvers = []solverDef{
	{"z3-new-5.1.0", func(f string, t, seed int) []string {
		return []string{"z3-new", fmt.Sprintf("-T:%d", t), fmt.Sprintf("smt.random_seed=%d", seed), f}
	}},
	{"cvc5-1.0.3", func(f string, t, seed int) []string {
		return []string{"cvc5", fmt.Sprintf("--tlimit=%d", t*1000), "--produce-models", fmt.Sprintf("--seed=%d", seed), f}
	}},
	{"z3-4.8.12", func(f string, t, seed int) []string {
		return []string{"/usr/bin/z3", fmt.Sprintf("-T:%d", t), fmt.Sprintf("smt.random_seed=%d", seed), f}
	}},
}

// solveOne races the solvers on one query; the first definitive answer wins.
// qfSatFinal is set during invariant inference (see houdini.go).
var qfSatFinal bool

func solveOne(dir, name, query string, timeoutS, seed int, which []int) *SolveResult {
	file := filepath.Join(dir, name+".smt2")
	if err := os.WriteFile(file, []byte(query), 0o644); err != nil {
		return &SolveResult{Status: "error", Output: err.Error()}
	}
	if !strings.Contains(name, ".qf") && strings.Contains(query, "(forall") && !strings.Contains(query, "\n(check-sat)\n(get-value") || !strings.Contains(name, ".qf") && strings.Contains(query, "(forall") {
		// stage 0: the same obligation without its quantified assumptions (weaker
		// hypotheses: a proof found here is a proof); ground instances of the
		// length axiom are added for the terms that occur
		if qf := quantifierFree(query); qf != "" {
			r := solveOne(dir, name+".qf", qf, 2, seed, which[:1])
			if r.Status == "unsat" {
				r.Backend += " (quantifier-free)"
				return r
			}
			if qfSatFinal && r.Status == "sat" {
				// invariant inference only: a candidate refuted without the
				// quantified axioms is dropped at once (dropping is always sound)
				return r
			}
		}
	}
	if len(which) > 1 {
		// stage 1: the fastest solver alone, short timeout
		t1 := timeoutS
		if t1 > 3 {
			t1 = 3
		}
		r := solveOne(dir, name, query, t1, seed, which[:1])
		if r.Status == "unsat" || r.Status == "sat" {
			return r
		}
	}
	ctx, cancel := context.WithCancel(context.Background())
	defer cancel()
	type ans struct {
		r *SolveResult
	}
	ch := make(chan ans, len(which))
	for _, si := range which {
		sd := solvers[si]
		go func(sd solverDef) {
			start := time.Now()
			argv := sd.argv(file, timeoutS, seed)
			cmd := exec.CommandContext(ctx, argv[0], argv[1:]...)
			var out bytes.Buffer
			cmd.Stdout = &out
			cmd.Stderr = &out
			_ = cmd.Run()
			r := &SolveResult{Backend: sd.name, Ms: time.Since(start).Milliseconds(), Output: out.String(), Query: file}
			first := strings.TrimSpace(strings.SplitN(out.String(), "\n", 2)[0])
			switch first {
			case "unsat", "sat", "unknown":
				r.Status = first
			case "timeout":
				r.Status = "timeout"
			default:
				if ctx.Err() != nil {
					r.Status = "cancelled"
				} else if strings.Contains(out.String(), "timeout") || strings.Contains(out.String(), "interrupted") {
					r.Status = "timeout"
				} else {
					r.Status = "error"
				}
			}
			if r.Status == "sat" {
				r.Model = parseValues(out.String())
			}
			ch <- ans{r}
		}(sd)
	}
	var best *SolveResult
	for range which {
		a := <-ch
		switch a.r.Status {
		case "unsat", "sat":
			cancel()
			return a.r
		}
		if best == nil || rank(a.r.Status) > rank(best.Status) {
			best = a.r
		}
	}
	return best
}

func rank(s string) int {
	switch s {
	case "unknown":
		return 3
	case "timeout":
		return 2
	case "error":
		return 1
	}
	return 0
}

// parseValues reads a (get-value ...) answer: ((name value) ...)
func parseValues(out string) map[string]string {
	m := map[string]string{}
	k := strings.Index(out, "((")
	if k < 0 {
		return m
	}
	s := out[k+1:]
	depth := 0
	start := -1
	for i := 0; i < len(s); i++ {
		switch s[i] {
		case '(':
			if depth == 0 {
				start = i
			}
			depth++
		case ')':
			depth--
			if depth == 0 && start >= 0 {
				item := s[start+1 : i]
				if sp := strings.IndexAny(item, " \n"); sp > 0 {
					m[strings.TrimSpace(item[:sp])] = strings.Join(strings.Fields(item[sp+1:]), " ")
				}
				start = -1
			}
			if depth < 0 {
				return m
			}
		}
	}
	return m
}

// solveAll discharges obligations in parallel.
func solveAll(obs []*Oblig, dir string, timeoutS, jobs, seed int, which []int, withModel bool) {
	os.MkdirAll(dir, 0o755)
	var wg sync.WaitGroup
	sem := make(chan struct{}, jobs)
	for i, o := range obs {
		if o.Result != nil && (o.Result.Backend == "effects-analysis" || o.Result.Backend == "call-graph" || o.Result.Backend == "constant") {
			continue // decided statically
		}
		wg.Add(1)
		sem <- struct{}{}
		go func(i int, o *Oblig) {
			defer wg.Done()
			defer func() { <-sem }()
			t0 := time.Now()
			q := o.enc.query(o, withModel)
			tq := time.Since(t0)
			if o.Cover {
				// vacuity guard: only a proof of unreachability matters
				o.Result = solveOne(dir, fmt.Sprintf("q%04d", i), q, 2, seed, which[:1])
			} else {
				o.Result = solveOne(dir, fmt.Sprintf("q%04d", i), q, timeoutS, seed, which)
			}
			if os.Getenv("GOVC_TIMING") != "" {
				fmt.Fprintf(os.Stderr, "timing %s gen=%v total=%v len=%d\n", o.Name, tq, time.Since(t0), len(q))
			}
		}(i, o)
	}
	wg.Wait()
}

func (o *Oblig) ok() bool {
	if o.Result == nil {
		return false
	}
	if o.Cover {
		// a vacuity guard fails only when the solver proves the point unreachable
		return o.Result.Status != "unsat"
	}
	return o.Result.Status == "unsat"
}

var slenTerm = regexp.MustCompile(`\(slen ([^\s()]+)\)`)

// quantifierFree drops every assertion that contains a quantifier and adds
// (>= (slen x) 0) for the atomic string terms whose length is mentioned.
func quantifierFree(q string) string {
	// Every quantified subterm is replaced by a fresh Boolean constant (the same
	// constant for identical subterms).  The result is valid only if the
	// original is: the constants generalise the subterms they stand for.
	lines := strings.Split(q, "\n")
	var out []string
	consts := map[string]string{}
	var order []string
	replaced := false
	for _, l := range lines {
		if strings.HasPrefix(l, "(get-value") {
			continue
		}
		if strings.HasPrefix(l, "(assert") && (strings.Contains(l, "(forall ") || strings.Contains(l, "(exists ")) {
			var b strings.Builder
			for k := 0; k < len(l); {
				if strings.HasPrefix(l[k:], "(forall ") || strings.HasPrefix(l[k:], "(exists ") {
					depth, e := 0, k
					for ; e < len(l); e++ {
						if l[e] == '(' {
							depth++
						} else if l[e] == ')' {
							depth--
							if depth == 0 {
								break
							}
						}
					}
					if e >= len(l) {
						return "" // unbalanced (multi-line term): give up
					}
					sub := l[k : e+1]
					c, ok := consts[sub]
					if !ok {
						c = fmt.Sprintf("qfb!%d", len(consts))
						consts[sub] = c
						order = append(order, c)
					}
					b.WriteString(c)
					k = e + 1
					replaced = true
					continue
				}
				b.WriteByte(l[k])
				k++
			}
			l = b.String()
			if l == "(assert "+consts[strings.TrimSuffix(strings.TrimPrefix(l, "(assert "), ")")]+")" {
				continue // a bare quantified axiom: nothing left
			}
		} else if strings.Contains(l, "(forall ") || strings.Contains(l, "(exists ") {
			if strings.HasPrefix(l, "(define-fun") {
				return "" // quantifier inside a definition: not handled
			}
		}
		out = append(out, l)
	}
	if !replaced {
		return ""
	}
	body := strings.Join(out, "\n")
	seen := map[string]bool{}
	var extra []string
	for _, c := range order {
		extra = append(extra, "(declare-const "+c+" Bool)")
	}
	for _, m := range slenTerm.FindAllStringSubmatch(body, -1) {
		if !seen[m[1]] && !strings.Contains(m[1], "q.") {
			seen[m[1]] = true
			extra = append(extra, "(assert (>= (slen "+m[1]+") 0))")
		}
	}
	// declarations must precede their use: put them before the first assert
	k := strings.Index(body, "\n(assert")
	if k < 0 {
		return ""
	}
	var decls, facts []string
	for _, x := range extra {
		if strings.HasPrefix(x, "(declare-const") {
			decls = append(decls, x)
		} else {
			facts = append(facts, x)
		}
	}
	body = body[:k] + "\n" + strings.Join(decls, "\n") + body[k:]
	k = strings.LastIndex(body, "(check-sat)")
	if k < 0 {
		return ""
	}
	return body[:k] + strings.Join(facts, "\n") + "\n" + body[k:]
}
