package main

import (
	"fmt"
	"go/types"
	"sort"
	"strings"

	"golang.org/x/tools/go/ssa"
)

// Oblig is one proof obligation: under the assumptions of its encoder,
// reach /\ not goal must be unsatisfiable.
type Oblig struct {
	Name   string
	Kind   string // K1 bounds, nil, assert, K2 requires, K3 ensures, K4 inv, dec, K5 assert, frame, cover
	Props  []string
	Func   string
	Pos    string
	Reach  Term
	Goal   Term
	Cover  bool // vacuity guard: expected SAT (reach satisfiable)
	enc    *Enc
	Result *SolveResult
	Inputs []string // names of constants that are the function's inputs (for models)
	auto   *Clause  // inferred invariant this obligation checks
}

// Fact is an assumption, included in a query when one of its symbols is needed.
type Fact struct {
	Syms []string
	T    Term
}

// State is the mutable part of the symbolic store.
type State struct {
	heap  map[string]Term
	epoch int
	alloc Term
}

func (s *State) clone() *State {
	n := &State{heap: make(map[string]Term, len(s.heap)), epoch: s.epoch, alloc: s.alloc}
	for k, v := range s.heap {
		n.heap[k] = v
	}
	return n
}

// Enc encodes one top-level function.
type Enc struct {
	P    *Program
	U    *Universe
	Top  *ssa.Function
	Key  string
	Spec *FuncSpec
	bv   bool

	declOrd     []string
	decls       map[string]Sort
	defs        map[string]Term
	facts       []Fact
	factsBy     map[string][]int
	obligs      []*Oblig
	names       map[string]int
	nfresh      int
	famSort     map[string]Sort
	inputs      []string
	warnings    []string
	unsupported string                 // non-empty: function could not be encoded soundly
	gmTerms     map[string]*ssa.Global // spec terms that denote an immutable package-level map
	ghostEntry  map[string]Term

	oldState    *State
	specErrs    []string
	inferred    map[*loopInfo][]*Clause
	usedInvs    map[string]bool
	houdini     bool
	firstRound  bool
	keptInv     map[loopKey][]*Clause
	candByLoop  map[loopKey][]*Clause
	faultPoints []string
	usedAssumes map[string]bool
	waived      []string
	nclosures   int
	touched     []touchedRef
	touchedSeen map[string]bool
	closureIDs  []*closureVal
}

func newEnc(P *Program, U *Universe, fn *ssa.Function) *Enc {
	e := &Enc{P: P, U: U, Top: fn, Key: funcKey(fn),
		decls: map[string]Sort{}, defs: map[string]Term{}, factsBy: map[string][]int{},
		names: map[string]int{}, famSort: map[string]Sort{}, usedInvs: map[string]bool{}, usedAssumes: map[string]bool{}}
	e.Spec = P.specFor(fn)
	if e.Spec != nil && e.Spec.Mode == "bv64" {
		e.bv = true
	}
	return e
}

func (e *Enc) warn(format string, a ...interface{}) {
	e.warnings = append(e.warnings, fmt.Sprintf(format, a...))
}

func (e *Enc) fail(format string, a ...interface{}) {
	if e.unsupported == "" {
		e.unsupported = fmt.Sprintf(format, a...)
	}
}

// declare introduces a fresh constant.
func (e *Enc) declare(hint string, s Sort) Term {
	hint = sanitize(hint)
	if _, clash := e.U.funs[hint]; clash || reservedNames[hint] {
		hint = "c." + hint
	}
	n := e.names[hint]
	e.names[hint] = n + 1
	name := hint
	if n > 0 {
		name = fmt.Sprintf("%s!%d", hint, n)
	}
	e.decls[name] = s
	e.declOrd = append(e.declOrd, name)
	return Term{name, s}
}

// define introduces a constant equal to t (keeps terms small, enables slicing).
func (e *Enc) define(hint string, t Term) Term {
	if isAtom(t.S) {
		return t
	}
	c := e.declare(hint, t.Sort)
	e.defs[c.S] = t
	return c
}

var reservedNames = map[string]bool{"itoa": true, "atoi": true, "slen": true, "sbyte": true, "ssub": true, "sconcat": true, "select": true, "store": true, "and": true, "or": true, "not": true, "ite": true, "div": true, "mod": true, "abs": true, "true": true, "false": true, "let": true, "forall": true, "exists": true, "as": true, "distinct": true}

func isAtom(s string) bool {
	return !strings.ContainsAny(s, "( ")
}

func (e *Enc) assume(t Term, syms ...string) {
	if t.S == "true" {
		return
	}
	if len(syms) == 0 {
		symbols(t.S, func(s string) {
			if _, ok := e.decls[s]; ok {
				syms = append(syms, s)
			}
		})
		if len(syms) > 1 {
			syms = syms[:1]
		}
	}
	idx := len(e.facts)
	e.facts = append(e.facts, Fact{syms, t})
	for _, s := range syms {
		e.factsBy[s] = append(e.factsBy[s], idx)
	}
}

// assumeAbout attaches a fact to every declared constant of the given terms.
func (e *Enc) assumeAbout(t Term, about ...Term) {
	var syms []string
	for _, a := range about {
		symbols(a.S, func(s string) {
			if _, ok := e.decls[s]; ok {
				syms = append(syms, s)
			}
		})
	}
	if len(syms) == 0 {
		e.assume(t)
		return
	}
	e.assume(t, syms...)
}

// family returns the current array term for a heap family in state st.
func (e *Enc) family(st *State, fam string, sort Sort) Term {
	if old, ok := e.famSort[fam]; ok && old != sort {
		e.fail("family %s used at sorts %s and %s", fam, old, sort)
	}
	e.famSort[fam] = sort
	if t, ok := st.heap[fam]; ok {
		return t
	}
	name := fmt.Sprintf("%s@%d", fam, st.epoch)
	if _, ok := e.decls[name]; !ok {
		e.decls[name] = sort
		e.declOrd = append(e.declOrd, name)
	}
	t := Term{name, sort}
	st.heap[fam] = t
	return t
}

func (e *Enc) setFamily(st *State, fam string, t Term) {
	st.heap[fam] = e.define("h."+fam, t)
}

// havoc replaces the given families by fresh arrays; all=true forgets
// everything.
func (e *Enc) havoc(st *State, fams map[string]Sort, all bool) {
	if all {
		e.nfresh++
		st.epoch = e.nfresh + 1000
		nh := map[string]Term{}
		for k, v := range st.heap {
			if strings.HasPrefix(k, "L.") {
				nh[k] = v // private locals are out of reach of any callee
			}
		}
		st.heap = nh
		na := e.declare("alloc", SInt)
		e.assume(ge(na, st.alloc), na.S)
		st.alloc = na
		return
	}
	var ks []string
	for k := range fams {
		ks = append(ks, k)
	}
	sort.Strings(ks)
	for _, k := range ks {
		srt := fams[k]
		if old, ok := e.famSort[k]; ok && old != srt {
			e.fail("family %s havocked at sort %s, used at %s", k, srt, old)
		}
		e.famSort[k] = srt
		st.heap[k] = e.declare("hv."+k, srt)
	}
	if len(ks) > 0 {
		na := e.declare("alloc", SInt)
		e.assume(ge(na, st.alloc), na.S)
		st.alloc = na
	}
}

// mergeStates joins states along edges with the given conditions.
func (e *Enc) mergeStates(conds []Term, sts []*State) *State {
	if len(sts) == 1 {
		return sts[0].clone()
	}
	out := &State{heap: map[string]Term{}}
	sameEpoch := true
	for _, s := range sts[1:] {
		if s.epoch != sts[0].epoch {
			sameEpoch = false
		}
	}
	if sameEpoch {
		out.epoch = sts[0].epoch
	} else {
		// make all known families explicit in every state, then use a new epoch
		for _, s := range sts {
			for k, srt := range e.famSort {
				if _, ok := s.heap[k]; !ok {
					e.family(s, k, srt)
				}
			}
		}
		e.nfresh++
		out.epoch = e.nfresh + 1000
	}
	keys := map[string]bool{}
	for _, s := range sts {
		for k := range s.heap {
			keys[k] = true
		}
	}
	var ks []string
	for k := range keys {
		ks = append(ks, k)
	}
	sort.Strings(ks)
	for _, k := range ks {
		srt := e.famSort[k]
		var vals []Term
		same := true
		for _, s := range sts {
			v := e.family(s, k, srt)
			vals = append(vals, v)
			if v.S != vals[0].S {
				same = false
			}
		}
		if same {
			out.heap[k] = vals[0]
			continue
		}
		t := vals[len(vals)-1]
		for i := len(vals) - 2; i >= 0; i-- {
			t = ite(conds[i], vals[i], t)
		}
		out.heap[k] = e.define("hm."+k, t)
	}
	// alloc
	same := true
	for _, s := range sts {
		if s.alloc.S != sts[0].alloc.S {
			same = false
		}
	}
	if same {
		out.alloc = sts[0].alloc
	} else {
		t := sts[len(sts)-1].alloc
		for i := len(sts) - 2; i >= 0; i-- {
			t = ite(conds[i], sts[i].alloc, t)
		}
		out.alloc = e.define("allocm", t)
	}
	return out
}

// addOblig registers an obligation.
func (e *Enc) addOblig(kind, name string, props []string, pos string, reach, goal Term) *Oblig {
	trivial := goal.S == "true"
	if trivial && (k1Kinds[kind] || kind == "cover" || kind == "wf" || strings.HasPrefix(kind, "inv")) {
		return nil
	}
	if sp := e.Spec; sp != nil {
		for _, w := range sp.Waive {
			if w.Kind == kind && (w.Text == "" || strings.Contains(name, w.Text)) {
				w.Used = true
				e.waived = append(e.waived, fmt.Sprintf("%s#%s[%s]: %s", e.Key, kind, name, w.Reason))
				return nil
			}
		}
	}
	full := e.Key + "#" + kind + "[" + name + "]"
	n := e.names["O:"+full]
	e.names["O:"+full] = n + 1
	if n > 0 {
		full = fmt.Sprintf("%s#%d", full, n+1)
	}
	o := &Oblig{Name: full, Kind: kind, Props: props, Func: e.Key, Pos: pos, Reach: reach, Goal: goal, enc: e, Inputs: e.inputs}
	if trivial {
		// a contract clause that the encoding reduces to "true" (a constant
		// argument, say) is still an obligation of the contract: it is recorded
		// as discharged, so that it is known to the ledger when a change makes
		// it non-trivial
		o.Result = &SolveResult{Status: "unsat", Backend: "constant"}
	}
	e.obligs = append(e.obligs, o)
	return o
}

// query renders the SMT-LIB text for an obligation, sliced to what it needs.
func (e *Enc) query(o *Oblig, withModel bool) string {
	need := map[string]bool{}
	var work []string
	addSyms := func(s string) {
		symbols(s, func(sym string) {
			if !need[sym] {
				need[sym] = true
				work = append(work, sym)
			}
		})
	}
	addSyms(o.Reach.S)
	addSyms(o.Goal.S)
	factIn := map[int]bool{}
	for len(work) > 0 {
		s := work[len(work)-1]
		work = work[:len(work)-1]
		if d, ok := e.defs[s]; ok {
			addSyms(d.S)
		}
		for _, fi := range e.factsBy[s] {
			if !factIn[fi] {
				factIn[fi] = true
				addSyms(e.facts[fi].T.S)
			}
		}
	}
	var body strings.Builder
	for _, n := range e.declOrd {
		if need[n] {
			fmt.Fprintf(&body, "(declare-const %s %s)\n", n, e.decls[n])
		}
	}
	for _, n := range e.declOrd {
		if need[n] {
			if d, ok := e.defs[n]; ok {
				fmt.Fprintf(&body, "(assert (= %s %s))\n", n, d.S)
			}
		}
	}
	var fis []int
	for fi := range factIn {
		fis = append(fis, fi)
	}
	sort.Ints(fis)
	for _, fi := range fis {
		fmt.Fprintf(&body, "(assert %s)\n", e.facts[fi].T.S)
	}
	fmt.Fprintf(&body, "(assert %s)\n", o.Reach.S)
	if !o.Cover {
		fmt.Fprintf(&body, "(assert (not %s))\n", o.Goal.S)
	}
	body.WriteString("(check-sat)\n")
	if withModel {
		var vs []string
		for _, in := range o.Inputs {
			if need[in] {
				vs = append(vs, in)
			}
		}
		if len(vs) > 0 {
			fmt.Fprintf(&body, "(get-value (%s))\n", strings.Join(vs, " "))
		}
	}
	bs := body.String()
	used := map[string]bool{}
	symbols(bs, func(s string) { used[s] = true })
	pre := e.U.prelude(func(s string) bool { return used[s] })
	// axioms may mention further literals: second pass is not needed since
	// axioms only use theory symbols.
	return "(set-option :produce-models true)\n(set-logic ALL)\n" + pre + bs
}

// ---- type helpers bound to the encoder ----

func (e *Enc) structFieldSort(t types.Type, i int) Sort { return e.U.fieldSort(t, i) }

// embRef is the reference of a struct embedded as field i of the struct at ref.
func (e *Enc) embRef(ref Term, t types.Type, i int) Term {
	name := "emb." + sanitize(typeName(t)) + "." + sanitize(t.Underlying().(*types.Struct).Field(i).Name())
	if _, ok := e.U.funs[name]; !ok {
		e.U.declareFun(name, []Sort{SInt}, SInt)
		e.U.declareFun(name+".inv", []Sort{SInt}, SInt)
		id := len(e.U.funs)
		e.U.axiom(fmt.Sprintf("(assert (forall ((x Int)) (! (and (< (%s x) 0) (= (%s.inv (%s x)) x) (= (emb.tag (%s x)) %d)) :pattern ((%s x)))))", name, name, name, name, id, name), name)
		e.U.declareFun("emb.tag", []Sort{SInt}, SInt)
	}
	return app(SInt, name, ref)
}

// touchedRef: an object of a type with a declared invariant that this
// function allocated or whose fields it stored to; its invariant must hold
// when the function returns (K7).
type touchedRef struct {
	ref Term
	typ types.Type
	how string
}

func (e *Enc) touch(ref Term, ptrType types.Type, how string) {
	_, stT, ok := isStructPtr(ptrType)
	if !ok {
		return
	}
	n, isNamed := stT.(*types.Named)
	if !isNamed || n.Obj().Pkg() == nil {
		return
	}
	key := n.Obj().Pkg().Name() + "." + n.Obj().Name()
	if len(e.P.Specs.TypeInvs[key]) == 0 {
		return
	}
	if e.touchedSeen == nil {
		e.touchedSeen = map[string]bool{}
	}
	if e.touchedSeen[ref.S] {
		return
	}
	e.touchedSeen[ref.S] = true
	e.touched = append(e.touched, touchedRef{ref, ptrType, how})
}
