#!/bin/sh
# Build the verification engine offline from files on disk only.
set -e
cd "$(dirname "$0")"
export GOFLAGS=-mod=mod GOPROXY=off GOSUMDB=off GOTOOLCHAIN=local CGO_ENABLED=0
mkdir -p bin out evidence
(cd govc && go build -o ../bin/govc .)
echo "govc built"
