#!/bin/bash
# run_all_seeds.sh [tier]: every kept seeded change against the check of its
# property (when registered); prints one line per seed.  Evidence is refreshed
# from the clean tree afterwards.
tier="${1:-quick}"
cd /verif
for d in seeded/C*; do
  name=$(basename "$d"); prop=${name%%-*}
  if ! jq -e --arg p "$prop" '.checks[] | select(.property_id==$p)' MANIFEST.json >/dev/null 2>&1; then
    echo "$name: property $prop has no registered check"; continue
  fi
  out=$(tools/run_seed.sh "$name" "$prop" "$tier" 2>&1)
  if echo "$out" | grep -q "^VIOLATION property=$prop"; then
    echo "$name: DETECTED ($(echo "$out" | grep -c '^VIOLATION') violation lines)"
  else
    echo "$name: MISSED  $(echo "$out" | grep -E '^property|exit=' | tr '\n' ' ')"
  fi
done
tools/refresh_all.sh > /dev/null 2>&1
