#!/bin/bash
# run_all_seeds.sh [tier]: every kept seeded change against the check of its
# property; prints one line per seed and writes out/seeds-table.md (the table
# of DESIGN.md 11.5).  Evidence is refreshed from the clean tree afterwards.
tier="${1:-quick}"
cd /verif
tab=out/seeds-table.md
echo "| seed | what the change does | check | first failing obligation |" > $tab
echo "|------|----------------------|-------|--------------------------|" >> $tab
for d in seeded/C*; do
  name=$(basename "$d"); prop=${name%%-*}
  what=$(head -1 "$d/README.md" | sed 's/^# *//; s/|/\//g' | cut -c1-110)
  if ! jq -e --arg p "$prop" '.checks[] | select(.property_id==$p)' MANIFEST.json >/dev/null 2>&1; then
    echo "$name: property $prop has no registered check"; echo "| $name | $what | — | (no registered check) |" >> $tab; continue
  fi
  tools/run_seed.sh "$name" "$prop" "$tier" > /dev/null 2>&1
  log="out/seed-$name-$prop.log"
  if grep -q "^VIOLATION property=$prop" "$log"; then
    ob=$(grep -m1 "^  obligation:" "$log" | sed 's/^  obligation: //; s/|/\//g' | cut -c1-140)
    if grep -q "^bounded\|bounded stand-in" "$log" && [ -z "$ob" ]; then ob="bounded stand-in mismatch"; fi
    echo "$name: DETECTED ($(grep -c '^VIOLATION' "$log") violation lines): $ob"
    echo "| $name | $what | ./check $prop | \`$ob\` |" >> $tab
  else
    echo "$name: MISSED  $(grep -E '^property|exit=' "$log" | tr '\n' ' ')"
    echo "| $name | $what | ./check $prop | **not detected** |" >> $tab
  fi
done
tools/refresh_all.sh > /dev/null 2>&1
