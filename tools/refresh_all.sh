#!/bin/bash
# Re-run every registered check on the unchanged tree so that the committed
# evidence files come from clean runs.
cd /verif || exit 2
[ -n "$(git -C /repo status --porcelain)" ] && { echo "/repo not clean"; exit 2; }
rc=0
for id in $(python3 -c "import json;print(' '.join(c['property_id'] for c in json.load(open('MANIFEST.json'))['checks']))"); do
  ./check "$id" quick > "out/refresh-$id.log" 2>&1; r=$?
  tail -1 "out/refresh-$id.log"
  [ $r -ne 0 ] && rc=1
done
exit $rc
