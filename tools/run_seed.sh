#!/bin/bash
# run_seed.sh <seed name> <property> [tier] : apply the seeded change to /repo, run the check, undo.
name="$1"; prop="$2"; tier="${3:-quick}"
cd /repo || exit 2
[ -n "$(git status --porcelain)" ] && { echo "/repo not clean"; exit 2; }
git apply "/verif/seeded/$name/patch.diff" || { echo "PATCH-DOES-NOT-APPLY $name" | tee "/verif/out/seed-$name-$prop.log"; exit 2; }
( cd /verif && ./check "$prop" "$tier" > "/verif/out/seed-$name-$prop.log" 2>&1; echo "exit=$?" >> "/verif/out/seed-$name-$prop.log" )
git -C /repo checkout -- . 
grep -E "^VIOLATION|^  obligation|exit=|^property|^UNDECIDED" "/verif/out/seed-$name-$prop.log" | head -12
