#!/bin/bash
# validate_seed.sh <src-dir with patch.diff + demo> <dest name under /verif/seeded> <property> <pkg-dir-for-demo>
# Confirms in a scratch worktree: patch applies, suite passes with it, demo fails with it and passes without.
set -u
src="$1"; name="$2"; prop="$3"; pkg="$4"
export GOFLAGS=-mod=mod GOPROXY=off GOSUMDB=off GOTOOLCHAIN=local
wt=$(mktemp -d /tmp/seedwt.XXXXXX); rmdir "$wt"
git -C /repo worktree add -q --detach "$wt" HEAD || exit 2
cleanup() { git -C /repo worktree remove --force "$wt" >/dev/null 2>&1; rm -rf "$wt"; }
trap cleanup EXIT
cd "$wt" || exit 2
demo=$(ls "$src"/*_test.go 2>/dev/null | head -1)
[ -z "$demo" ] && { echo "no demo test"; exit 2; }
run=$(grep -o 'func Test[A-Za-z0-9_]*' "$demo" | sed 's/func //' | paste -sd'|')
if ! git apply --check "$src/patch.diff" 2>/dev/null; then echo "RESULT $name patch-does-not-apply"; exit 1; fi
git apply "$src/patch.diff"
if ! go build ./... 2>/dev/null; then echo "RESULT $name does-not-build"; exit 1; fi
suite=$(go test -vet=off -count=1 ./... 2>&1 | grep -c '^ok')
cp "$demo" "$pkg/zz_seed_demo_test.go"
with=$(go test -vet=off -count=1 -run "$run" "./$pkg/" 2>&1 | tail -1)
git checkout -q -- . 
without=$(go test -vet=off -count=1 -run "$run" "./$pkg/" 2>&1 | tail -1)
rm -f "$pkg/zz_seed_demo_test.go"
echo "suite_ok_pkgs=$suite with_patch: $with | without: $without"
case "$with" in ok*) echo "RESULT $name demo-does-not-fail"; exit 1;; esac
case "$without" in ok*) ;; *) echo "RESULT $name demo-fails-on-clean-tree"; exit 1;; esac
[ "$suite" = 5 ] || { echo "RESULT $name suite-fails"; exit 1; }
dst=/verif/seeded/$name; mkdir -p "$dst"
cp "$src/patch.diff" "$dst/patch.diff"; cp "$demo" "$dst/demo_test.go"; [ -f "$src/README.md" ] && cp "$src/README.md" "$dst/README.md"
python3 - "$dst" "$prop" "$pkg" "$run" <<'PY'
import json,sys
dst,prop,pkg,run=sys.argv[1:5]
readme=open(dst+'/README.md').read() if __import__('os').path.exists(dst+'/README.md') else ''
json.dump({"property":prop,"needs_to_manifest":"see README.md (written by the sub-agent that produced the change)","demo":{"file":"demo_test.go","package_dir":pkg,"run":"go test -vet=off -count=1 -run '%s' ./%s/"%(run,pkg)},"validated":"tools/validate_seed.sh: in a scratch worktree of /repo HEAD the patch applies, go build and the unedited suite (5 packages) pass, the demo fails with the patch and passes without it"},open(dst+'/meta.json','w'),indent=1)
PY
echo "RESULT $name OK"
