package main

import (
	"fmt"
	"math/rand"
	"strings"
	"unicode"

	"github.com/hattya/go.sh/pattern"
)

// ---- reference: shell pattern notation (XCU 2.13), written from the statement ----

type tokKind int

const (
	tLit tokKind = iota
	tAny
	tStar
	tSet
)

type setItem struct {
	lo, hi rune
	class  string
}

type ptok struct {
	kind  tokKind
	r     rune
	neg   bool
	items []setItem
}

var errMalformed = fmt.Errorf("malformed")
var errAbstain = fmt.Errorf("abstain")

func parsePattern(p string) ([]ptok, error) {
	rs := []rune(p)
	var out []ptok
	for i := 0; i < len(rs); i++ {
		switch rs[i] {
		case '?':
			out = append(out, ptok{kind: tAny})
		case '*':
			out = append(out, ptok{kind: tStar})
		case '\\':
			if i+1 >= len(rs) {
				return nil, errMalformed
			}
			i++
			out = append(out, ptok{kind: tLit, r: rs[i]})
		case '[':
			j := i + 1
			t := ptok{kind: tSet}
			if j < len(rs) && (rs[j] == '!' || rs[j] == '^') {
				t.neg = true
				j++
			}
			first := true
			closed := false
			for j < len(rs) {
				c := rs[j]
				if c == ']' && !first {
					closed = true
					break
				}
				first = false
				if c == '\\' {
					// an escaped character inside a bracket expression is a member that
					// stands for itself (an escaped "-" is never a range operator)
					if j+1 >= len(rs) {
						return nil, errMalformed
					}
					lit := rs[j+1]
					if j+2 < len(rs) && rs[j+2] == '-' && j+3 < len(rs) && rs[j+3] != ']' {
						return nil, errAbstain // an escaped character as the start of a range: not pinned down
					}
					t.items = append(t.items, setItem{lo: lit, hi: lit})
					j += 2
					continue
				}
				if c == '[' {
					if j+1 < len(rs) && (rs[j+1] == ':' || rs[j+1] == '.' || rs[j+1] == '=') {
						kind := rs[j+1]
						if kind != ':' {
							return nil, errAbstain // collating symbols / equivalence classes, closed or not
						}
						end := strings.Index(string(rs[j+2:]), string(kind)+"]")
						if end < 0 {
							return nil, errMalformed
						}
						name := string([]rune(string(rs[j+2:]))[:len([]rune(string(rs[j+2:])[:end]))])
						if kind != ':' {
							return nil, errAbstain // collating symbols / equivalence classes
						}
						t.items = append(t.items, setItem{class: name})
						j += 2 + len([]rune(name)) + 2
						continue
					}
					// a '[' that starts neither a class, a collating symbol nor an
					// equivalence class is an ordinary member (or the start of a range)
				}
				if j+2 < len(rs) && rs[j+1] == '-' && rs[j+2] != ']' {
					hi := rs[j+2]
					if hi == '\\' || hi == '[' {
						return nil, errAbstain
					}
					if hi < c {
						return nil, errAbstain // reversed range
					}
					t.items = append(t.items, setItem{lo: c, hi: hi})
					j += 3
					continue
				}
				t.items = append(t.items, setItem{lo: c, hi: c})
				j++
			}
			if !closed {
				return nil, errMalformed
			}
			out = append(out, t)
			i = j
		default:
			out = append(out, ptok{kind: tLit, r: rs[i]})
		}
	}
	return out, nil
}

func classMatch(name string, r rune) (bool, bool) {
	switch name {
	case "alpha":
		return unicode.IsLetter(r), true
	case "digit":
		return r >= '0' && r <= '9', true
	case "alnum":
		return unicode.IsLetter(r) || unicode.IsDigit(r), true
	case "upper":
		return unicode.IsUpper(r), true
	case "lower":
		return unicode.IsLower(r), true
	case "space":
		return unicode.IsSpace(r), true
	case "blank":
		return r == ' ' || r == '\t', true
	case "punct":
		return unicode.IsPunct(r), true
	}
	return false, false
}

func (t *ptok) matches(r rune) bool {
	switch t.kind {
	case tLit:
		return t.r == r
	case tAny:
		return true
	case tSet:
		in := false
		for _, it := range t.items {
			if it.class != "" {
				m, _ := classMatch(it.class, r)
				in = in || m
			} else if it.lo <= r && r <= it.hi {
				in = true
			}
		}
		return in != t.neg
	}
	return false
}

func matchWhole(ts []ptok, s []rune) bool {
	// classic two-pointer glob with backtracking on the last star
	// (correct for patterns made of single-rune tokens and stars)
	n, m := len(ts), len(s)
	dp := make([][]bool, n+1)
	for i := range dp {
		dp[i] = make([]bool, m+1)
	}
	dp[0][0] = true
	for i := 1; i <= n; i++ {
		if ts[i-1].kind == tStar {
			dp[i][0] = dp[i-1][0]
		}
		for j := 1; j <= m; j++ {
			if ts[i-1].kind == tStar {
				dp[i][j] = dp[i-1][j] || dp[i][j-1]
			} else {
				dp[i][j] = dp[i-1][j-1] && ts[i-1].matches(s[j-1])
			}
		}
	}
	return dp[n][m]
}

// refMatch: (result, nomatch, malformed, abstain)
func refMatch(pats []string, mode pattern.Mode, s string) (string, bool, bool, bool) {
	if mode&pattern.Prefix != 0 && mode&pattern.Suffix != 0 {
		return "", true, false, false
	}
	var toks [][]ptok
	for _, p := range pats {
		t, err := parsePattern(p)
		if err == errAbstain {
			return "", false, false, true
		}
		if err == errMalformed {
			return "", false, true, false
		}
		toks = append(toks, t)
	}
	rs := []rune(s)
	// POSIX character classes are locale dependent: outside ASCII the property
	// does not say what [:alpha:] contains
	for _, t := range toks {
		for _, tk := range t {
			for _, it := range tk.items {
				if it.class != "" {
					if _, known := classMatch(it.class, 'a'); !known {
						return "", false, false, true
					}
					for _, r := range rs {
						if r >= 128 {
							return "", false, false, true
						}
					}
				}
			}
		}
	}
	smallest := mode&pattern.Smallest != 0 && mode&pattern.Largest == 0
	best := -1
	for k := 0; k <= len(rs); k++ {
		var part []rune
		if mode&pattern.Prefix != 0 {
			part = rs[:k]
		} else {
			part = rs[len(rs)-k:]
		}
		ok := false
		for _, t := range toks {
			if matchWhole(t, part) {
				ok = true
			}
		}
		if ok {
			if smallest {
				best = k
				break
			}
			best = k
		}
	}
	if best < 0 {
		return "", true, false, false
	}
	if mode&pattern.Prefix != 0 {
		return string(rs[:best]), false, false, false
	}
	return string(rs[len(rs)-best:]), false, false, false
}

// ---- comparison with the real Match ----

func checkMatch(pats []string, mode pattern.Mode, s string) {
	atomicAdd(&cases)
	want, nomatch, malformed, abstain := refMatch(pats, mode, s)
	var got string
	var err error
	panicked := interface{}(nil)
	func() {
		defer func() { panicked = recover() }()
		got, err = pattern.Match(pats, mode, s)
	}()
	key := fmt.Sprintf("%q|%d|%q", pats, mode, s)
	in := map[string]interface{}{"patterns": pats, "mode": int(mode), "subject": s}
	if panicked != nil {
		addMismatch(mismatch{Check: "match", Input: in, Got: fmt.Sprintf("panic: %v", panicked), Want: "no panic", Key: key})
		return
	}
	if abstain {
		atomicAdd(&abstained)
		return
	}
	atomicAdd(&distinct)
	switch {
	case malformed:
		if err == nil || err == pattern.NoMatch {
			addMismatch(mismatch{Check: "match", Input: in, Got: fmt.Sprintf("%q, %v", got, err), Want: "an error (malformed pattern)", Key: key})
		}
	case nomatch:
		if err != pattern.NoMatch {
			addMismatch(mismatch{Check: "match", Input: in, Got: fmt.Sprintf("%q, %v", got, err), Want: "NoMatch", Key: key})
		}
	default:
		if err != nil || got != want {
			addMismatch(mismatch{Check: "match", Input: in, Got: fmt.Sprintf("%q, %v", got, err), Want: fmt.Sprintf("%q", want), Key: key})
		}
	}
}

func words(alpha []string, maxLen int) []string {
	out := []string{""}
	prev := []string{""}
	for l := 1; l <= maxLen; l++ {
		var cur []string
		for _, p := range prev {
			for _, a := range alpha {
				cur = append(cur, p+a)
			}
		}
		out = append(out, cur...)
		prev = cur
	}
	return out
}

var modes = []pattern.Mode{
	pattern.Prefix | pattern.Smallest, pattern.Prefix | pattern.Largest,
	pattern.Suffix | pattern.Smallest, pattern.Suffix | pattern.Largest,
}

func runMatch(tier string, seed int64) (string, bool) {
	palpha := []string{"a", "b", "*", "?", "[", "]", "!", "^", "-", "\\", ".", "\n"}
	salpha := []string{"a", "b", "-", "]", "[", ".", "\n"}
	pl, sl := 3, 3
	if tier == "thorough" {
		pl, sl = 4, 4
	}
	pats := words(palpha, pl)
	subs := words(salpha, sl)
	parallel(len(pats), func(i int) {
		p := pats[i]
		for _, s := range subs {
			for _, m := range modes {
				checkMatch([]string{p}, m, s)
			}
		}
	})
	addSample(fmt.Sprintf("Match([%q], Suffix|Smallest, %q)", pats[len(pats)/2], subs[len(subs)/2]))
	// bracket expressions, exhaustively: optional negation, up to three members
	// (a leading "]" is a member; "*", "?" and regexp metacharacters inside a
	// bracket stand for themselves), alone and followed by a star
	members := []string{"]", "a", "*", "?", "-", "!", "(", ".", "\\-", "\\]", "\\\\", "z", "["}
	var sets []string
	for _, neg := range []string{"", "!", "^"} {
		for _, ms := range words(members, 3) {
			sets = append(sets, "["+neg+ms+"]")
		}
	}
	bsub := words([]string{"a", "]", "*", "?", "(", "s", ":", ".", "-", "!", ")", "m", "z", "\\"}, 2)
	parallel(len(sets), func(i int) {
		for _, tail := range []string{"", "*", "a"} {
			for _, s := range bsub {
				for _, m := range modes {
					checkMatch([]string{sets[i] + tail}, m, s)
				}
			}
		}
	})
	addSample(fmt.Sprintf("Match([%q], Prefix|Largest, %q)", sets[len(sets)/3]+"*", bsub[len(bsub)/2]))
	// characters that mean something to the regular-expression engine but
	// nothing to the shell stand for themselves: every pattern of <= 5 symbols
	// over {a, {, }, 1, ",", +, (, ), |, ., ^, $} against short subjects
	ralpha, rl := []string{"a", "{", "}", "1", ",", "+", "(", "|"}, 3
	rsalpha := []string{"a", "{", "}", "1", ","}
	if tier == "thorough" {
		ralpha, rl = []string{"a", "{", "}", "1", ",", "+", "(", ")", "|", ".", "^", "$"}, 4
		rsalpha = []string{"a", "{", "}", "1", ",", "+", "(", "|", "."}
	}
	rmeta := words(ralpha, rl)
	for _, extra := range []string{"a{1,}", "a{1,1}", "a{1}a", "{1,1}", "a{1,}a", "(a|a)", "a{11}"} {
		rmeta = append(rmeta, extra)
	}
	rsub := words(rsalpha, 3)
	for _, extra := range []string{"a{1}", "a{1,}", "aaaa", "a{1,1}", "a{11}", "(a|a)"} {
		rsub = append(rsub, extra)
	}
	parallel(len(rmeta), func(i int) {
		for _, s := range rsub {
			for _, m := range modes {
				checkMatch([]string{rmeta[i]}, m, s)
			}
		}
	})
	addSample(fmt.Sprintf("Match([%q], Suffix|Smallest, %q)", "a{1}", "a{1}"))
	// U+FFFD is an ordinary character of the subject (it is also what a decoder
	// reports for an undecodable byte, so code that tests for it must not treat
	// the valid character specially)
	fp := words([]string{"a", "z", "*", "?", "[!a]", "\uFFFD"}, 3)
	fs := words([]string{"a", "z", "\uFFFD"}, 4)
	parallel(len(fp), func(i int) {
		for _, s := range fs {
			for _, m := range modes {
				checkMatch([]string{fp[i]}, m, s)
			}
		}
	})
	addSample(fmt.Sprintf("Match([%q], Suffix|Smallest, %q)", "?*z", "z\uFFFDaz"))
	// two-pattern lists over a small alphabet
	p2 := words([]string{"a", "b", "*", "?", "|"}, 2)
	s2 := words([]string{"a", "b", "|"}, 3)
	parallel(len(p2), func(i int) {
		for _, q := range p2 {
			for _, s := range s2 {
				for _, m := range modes {
					checkMatch([]string{p2[i], q}, m, s)
				}
			}
		}
	})
	addSample(fmt.Sprintf("Match([%q %q], Prefix|Largest, %q)", p2[3], p2[7], s2[9]))
	// seeded random longer patterns: classes, ranges, multi-byte runes, regexp metacharacters
	n := 20000
	if tier == "thorough" {
		n = 200000
	}
	rng := rand.New(rand.NewSource(seed))
	pieces := []string{"a", "b", "é", "日", "*", "?", "[ab]", "[!a]", "[^b]", "[a-c]", "[[:alpha:]]", "[[:digit:]]", "[]a]", "[a-]", "\\*", "\\?", "\\[", "\\\\", ".", "+", "(", ")", "|", "{", "}", "^", "$", "\n", "x", "\uFFFD"}
	subj := []string{"a", "b", "c", "é", "日", "\uFFFD", "x", "1", "*", "?", "[", "\\", ".", "+", "(", ")", "|", "{", "}", "^", "$", "\n", "]", "-"}
	type rc struct {
		p, s string
		m    pattern.Mode
	}
	rcs := make([]rc, n)
	for i := range rcs {
		var pb, sb strings.Builder
		for k := rng.Intn(6); k >= 0; k-- {
			pb.WriteString(pieces[rng.Intn(len(pieces))])
		}
		for k := rng.Intn(7); k > 0; k-- {
			sb.WriteString(subj[rng.Intn(len(subj))])
		}
		rcs[i] = rc{pb.String(), sb.String(), modes[rng.Intn(4)]}
	}
	parallel(n, func(i int) { checkMatch([]string{rcs[i].p}, rcs[i].m, rcs[i].s) })
	addSample(fmt.Sprintf("Match([%q], %d, %q) (random part)", rcs[0].p, rcs[0].m, rcs[0].s))
	return fmt.Sprintf("exhaustive: single patterns of <= %d symbols over %d, subjects of <= %d over %d, 4 modes; all bracket expressions with optional negation and <= 3 members over {],a,z,*,?,-,!,(,.,\\\\-,\\\\]} alone and followed by * or a, on subjects <= 2 over 14 symbols; all patterns of <= 3 symbols over 8 regexp metacharacters (thorough: <= 4 over 12) plus repetition-like forms such as a{1,} on subjects <= 3 over 5 (thorough: 9); all patterns of <= 3 symbols over {a,z,*,?,[!a],U+FFFD} on subjects <= 4 over {a,z,U+FFFD}; pairs of patterns of <= 2 symbols over {a,b,*,?,|} on subjects <= 3; plus %d seeded random patterns with classes, ranges, multi-byte runes and regexp metacharacters", pl, len(palpha), sl, len(salpha), n), true
}
