module bounded

go 1.20

require github.com/hattya/go.sh v0.0.0

replace github.com/hattya/go.sh => /repo
