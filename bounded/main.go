// Bounded stand-ins (DESIGN 4, C12 and C14): exhaustive comparison of the
// real code with reference implementations written from the property
// statements, over all inputs up to a stated bound.  Labelled "bounded" in
// the evidence; never counted as proved.
package main

import (
	"encoding/json"
	"flag"
	"fmt"
	"os"
	"path/filepath"
	"runtime"
	"sort"
	"sync"
	"sync/atomic"
)

type mismatch struct {
	Check string      `json:"check"`
	Input interface{} `json:"input"`
	Got   interface{} `json:"got"`
	Want  interface{} `json:"want"`
	Note  string      `json:"note,omitempty"`
	Key   string      `json:"key"`
}

type report struct {
	Check      string     `json:"check"`
	Bound      string     `json:"bound"`
	Cases      int64      `json:"cases"`
	Distinct   int64      `json:"distinct_nontrivial"`
	Abstained  int64      `json:"abstained"`
	Mismatches []mismatch `json:"mismatches"`
	Samples    []string   `json:"samples"`
	Exhaustive bool       `json:"exhaustive"`
	Seed       int64      `json:"seed"`
}

var (
	cases     int64
	distinct  int64
	abstained int64
	mu        sync.Mutex
	found     []mismatch
	samples   []string
)

func addMismatch(m mismatch) {
	mu.Lock()
	defer mu.Unlock()
	if len(found) < 200 {
		found = append(found, m)
	}
}

func addSample(s string) {
	mu.Lock()
	defer mu.Unlock()
	if len(samples) < 6 {
		samples = append(samples, s)
	}
}

func parallel(n int, f func(i int)) {
	var wg sync.WaitGroup
	var next int64 = -1
	for w := 0; w < runtime.NumCPU(); w++ {
		wg.Add(1)
		go func() {
			defer wg.Done()
			for {
				i := int(atomic.AddInt64(&next, 1))
				if i >= n {
					return
				}
				f(i)
			}
		}()
	}
	wg.Wait()
}

func main() {
	check := flag.String("check", "", "match | split")
	tier := flag.String("tier", "quick", "quick | thorough")
	out := flag.String("out", "", "report file")
	seed := flag.Int64("seed", 1, "seed for the random part")
	flag.Parse()
	if *out != "" {
		if abs, err := filepath.Abs(*out); err == nil {
			*out = abs
		}
	}
	r := report{Check: *check, Seed: *seed}
	switch *check {
	case "match":
		r.Bound, r.Exhaustive = runMatch(*tier, *seed)
	case "split":
		r.Bound, r.Exhaustive = runSplit(*tier, *seed)
	case "glob":
		r.Bound, r.Exhaustive = runGlob(*tier, *seed)
	default:
		fmt.Fprintln(os.Stderr, "unknown check")
		os.Exit(2)
	}
	r.Cases, r.Distinct, r.Abstained = cases, distinct, abstained
	sort.Slice(found, func(i, j int) bool { return found[i].Key < found[j].Key })
	r.Mismatches, r.Samples = found, samples
	data, _ := json.MarshalIndent(r, "", " ")
	if *out != "" {
		os.WriteFile(*out, data, 0o644)
	}
	fmt.Printf("bounded %s (%s): %d cases, %d abstained, %d mismatches\n", *check, r.Bound, r.Cases, r.Abstained, len(found))
}
