package main

import (
	"fmt"
	"os"
	"path/filepath"
	"reflect"
	"sort"
	"strings"

	"github.com/hattya/go.sh/pattern"
)

// ---- reference: pathname expansion (XCU 2.13.3), written from the statement ----

// splitComponents cuts a relative pattern at unescaped slashes; each
// component remembers whether a slash follows it.
func splitComponents(p string) (comps []string, trailing []bool, ok bool) {
	var cur strings.Builder
	rs := []rune(p)
	for i := 0; i < len(rs); i++ {
		switch rs[i] {
		case '\\':
			if i+1 >= len(rs) {
				return nil, nil, false // trailing backslash: not pinned down
			}
			if rs[i+1] == '/' {
				// an escaped slash still separates components
				comps = append(comps, cur.String())
				trailing = append(trailing, true)
				cur.Reset()
				i++
				continue
			}
			cur.WriteRune(rs[i])
			cur.WriteRune(rs[i+1])
			i++
		case '/':
			comps = append(comps, cur.String())
			trailing = append(trailing, true)
			cur.Reset()
		default:
			cur.WriteRune(rs[i])
		}
	}
	if cur.Len() > 0 {
		comps = append(comps, cur.String())
		trailing = append(trailing, false)
	}
	return comps, trailing, true
}

func isLiteral(toks []ptok) bool {
	for _, t := range toks {
		if t.kind != tLit {
			return false
		}
	}
	return true
}

func literalText(toks []ptok) string {
	var b strings.Builder
	for _, t := range toks {
		b.WriteRune(t.r)
	}
	return b.String()
}

// refGlob: (paths, abstain)
func refGlob(p string) ([]string, bool) {
	if p == "" {
		return nil, false
	}
	if strings.HasPrefix(p, "/") || strings.HasPrefix(p, "\\/") || strings.Contains(p, "//") || strings.Contains(p, "/\\/") {
		return nil, true
	}
	comps, trailing, ok := splitComponents(p)
	if !ok {
		return nil, true
	}
	for _, c := range comps {
		if c == "" {
			return nil, true
		}
	}
	paths := []string{""}
	for ci, c := range comps {
		toks, err := parsePattern(c)
		if err != nil {
			return nil, true
		}
		suffix := ""
		if trailing[ci] {
			suffix = "/"
		}
		var next []string
		for _, base := range paths {
			if isLiteral(toks) {
				cand := base + literalText(toks) + suffix
				if _, err := os.Lstat(cand); err == nil {
					next = append(next, cand)
				}
				continue
			}
			dir := base
			if dir == "" {
				dir = "."
			}
			f, err := os.Open(dir)
			if err != nil {
				continue
			}
			names, _ := f.Readdirnames(-1)
			f.Close()
			leadingDot := len(toks) > 0 && toks[0].kind == tLit && toks[0].r == '.'
			if leadingDot {
				names = append(names, ".", "..")
			}
			for _, n := range names {
				if strings.HasPrefix(n, ".") && !leadingDot {
					continue
				}
				if !matchWhole(toks, []rune(n)) {
					continue
				}
				cand := base + n + suffix
				if _, err := os.Lstat(cand); err == nil {
					next = append(next, cand)
				}
			}
		}
		paths = next
		if len(paths) == 0 {
			return nil, false
		}
	}
	sort.Strings(paths)
	// no duplicates
	var out []string
	for i, s := range paths {
		if i == 0 || s != paths[i-1] {
			out = append(out, s)
		}
	}
	return out, false
}

func checkGlob(p string) {
	atomicAdd(&cases)
	want, abstain := refGlob(p)
	var got []string
	var err error
	panicked := interface{}(nil)
	func() {
		defer func() { panicked = recover() }()
		got, err = pattern.Glob(p)
	}()
	in := map[string]interface{}{"pattern": p}
	if panicked != nil {
		addMismatch(mismatch{Check: "glob", Input: in, Got: fmt.Sprintf("panic: %v", panicked), Want: "no panic", Key: p})
		return
	}
	if abstain {
		atomicAdd(&abstained)
		return
	}
	atomicAdd(&distinct)
	if err != nil || !(len(got) == 0 && len(want) == 0 || reflect.DeepEqual(got, want)) {
		addMismatch(mismatch{Check: "glob", Input: in, Got: fmt.Sprintf("%q %v", got, err), Want: fmt.Sprintf("%q", want), Key: p})
	}
}

func runGlob(tier string, seed int64) (string, bool) {
	root, err := os.MkdirTemp("", "verif-glob")
	if err != nil {
		fmt.Fprintln(os.Stderr, err)
		os.Exit(2)
	}
	defer os.RemoveAll(root)
	mk := func(rel string, dir bool) {
		full := filepath.Join(root, rel)
		if dir {
			os.MkdirAll(full, 0o755)
		} else {
			os.MkdirAll(filepath.Dir(full), 0o755)
			os.WriteFile(full, nil, 0o644)
		}
	}
	for _, f := range []string{"a", "b", ".h", "a.d/x", "a.d/.y", "a-b/a", "d/a", "d/b", ".hd/y", "d/a.d/b", "ab", "*", "a.d/*"} {
		mk(f, false)
	}
	mk("e", true)
	os.Symlink("d", filepath.Join(root, "ld"))
	if err := os.Chdir(root); err != nil {
		fmt.Fprintln(os.Stderr, err)
		os.Exit(2)
	}
	alpha := []string{"a", "b", "d", "*", "?", "/", ".", "\\", "[", "]", "-"}
	n := 4
	if tier == "thorough" {
		n = 5
	}
	pats := words(alpha, n)
	// the file system is shared: run sequentially per pattern but in parallel workers (read-only)
	parallel(len(pats), func(i int) { checkGlob(pats[i]) })
	for _, p := range []string{"*/", "a*/x", "?*/a", "\\.h*", "\\.*", "*/\\.y", "l*/a", "[ab]*", "d/[!b]", "*/*/*", "a.d/\\*", "\\*"} {
		checkGlob(p)
	}
	addSample(fmt.Sprintf("Glob(%q) in a tree with files a b .h ab '*' a.d/{x,.y,*} a-b/a d/{a,b,a.d/b} .hd/y, empty dir e, symlink ld->d", pats[len(pats)/2]))
	return fmt.Sprintf("exhaustive: relative patterns of <= %d symbols over %d symbols, in a fixed tree of 13 files, 7 directories and a symlink (hidden names, names with '.', '-', '*')", n, len(alpha)), true
}
