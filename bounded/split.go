package main

import (
	"fmt"
	"math/rand"
	"reflect"
	"strconv"
	"strings"
	"unicode"

	"github.com/hattya/go.sh/ast"
	"github.com/hattya/go.sh/interp"
)

// ---- reference: field splitting (XCU 2.6.5), written from the statement ----

// A word is a list of segments; each is unquoted or quoted text.
type seg struct {
	text   string
	quoted bool
	// exp says where unquoted text comes from: 0 a literal of the word, 1 the
	// value of a variable ($vN), 2 the word of ${uN-text} with uN unset, 3 the
	// length of a variable (${#wN}, text is the decimal length).  The results of
	// expansions that are not inside double quotes are split like literal text.
	exp int
}

// refSplit returns the fields of the word under the given IFS (nil: unset).
func refSplit(segs []seg, ifs *string) []string {
	sep := " \t\n"
	if ifs != nil {
		sep = *ifs
	}
	type ch struct {
		r      rune
		quoted bool
	}
	var cs []ch
	anyQuoted := false
	for _, s := range segs {
		if s.quoted {
			anyQuoted = true
		}
		for _, r := range s.text {
			cs = append(cs, ch{r, s.quoted})
		}
	}
	// positions of quoted-but-empty segments matter: they make a field exist
	// build a stream of items: chars, and "anchors" for empty quoted segments
	type item struct {
		r      rune
		quoted bool
		anchor bool
	}
	var items []item
	for _, s := range segs {
		if s.quoted && s.text == "" {
			items = append(items, item{anchor: true, quoted: true})
			continue
		}
		for _, r := range s.text {
			items = append(items, item{r: r, quoted: s.quoted})
		}
	}
	_ = cs
	_ = anyQuoted
	if sep == "" {
		// no splitting: one field, dropped only if empty and nothing quoted
		var b strings.Builder
		q := false
		for _, it := range items {
			if it.anchor {
				q = true
				continue
			}
			if it.quoted {
				q = true
			}
			b.WriteRune(it.r)
		}
		if b.Len() == 0 && !q {
			return nil
		}
		return []string{b.String()}
	}
	isIFS := func(it item) bool { return !it.quoted && !it.anchor && strings.ContainsRune(sep, it.r) }
	isWS := func(it item) bool { return isIFS(it) && unicode.IsSpace(it.r) }
	var fields []string
	var cur strings.Builder
	curQuoted := false
	have := false // a field is in progress (has content or a quoted part)
	flush := func(force bool) {
		if have || force {
			fields = append(fields, cur.String())
		}
		cur.Reset()
		have, curQuoted = false, false
	}
	i := 0
	n := len(items)
	// leading IFS white space is ignored
	for i < n && isWS(items[i]) {
		i++
	}
	for i < n {
		it := items[i]
		if !isIFS(it) {
			if it.anchor {
				have, curQuoted = true, true
			} else {
				cur.WriteRune(it.r)
				have = true
				if it.quoted {
					curQuoted = true
				}
			}
			i++
			continue
		}
		// a delimiter: optional IFS white space, at most one non-white-space IFS character, optional white space
		j := i
		for j < n && isWS(items[j]) {
			j++
		}
		nonws := false
		if j < n && isIFS(items[j]) && !isWS(items[j]) {
			nonws = true
			j++
			for j < n && isWS(items[j]) {
				j++
			}
		}
		if nonws {
			flush(true) // a non-white-space delimiter always terminates a field, even an empty one
		} else {
			if j >= n {
				// trailing IFS white space is ignored
				break
			}
			flush(false)
		}
		i = j
	}
	flush(false)
	_ = curQuoted
	// empty fields that contain nothing quoted are dropped (by Expand)
	return fields
}

// A generated empty unquoted field (from a non-white-space delimiter) is
// "empty with nothing quoted" and is dropped by Expand according to the
// statement; so the comparison uses the same rule on the reference side.
func refExpand(segs []seg, ifs *string) []string {
	sep := " \t\n"
	if ifs != nil {
		sep = *ifs
	}
	if sep == "" {
		return refSplit(segs, ifs)
	}
	// re-run the splitter but remember for every field whether it had a quoted part
	type item struct {
		r      rune
		quoted bool
		anchor bool
	}
	var items []item
	for _, s := range segs {
		if s.quoted && s.text == "" {
			items = append(items, item{anchor: true, quoted: true})
			continue
		}
		for _, r := range s.text {
			items = append(items, item{r: r, quoted: s.quoted})
		}
	}
	isIFS := func(it item) bool { return !it.quoted && !it.anchor && strings.ContainsRune(sep, it.r) }
	isWS := func(it item) bool { return isIFS(it) && unicode.IsSpace(it.r) }
	var out []string
	var cur strings.Builder
	curQuoted := false
	emit := func() {
		if cur.Len() > 0 || curQuoted {
			out = append(out, cur.String())
		}
		cur.Reset()
		curQuoted = false
	}
	i, n := 0, len(items)
	for i < n && isWS(items[i]) {
		i++
	}
	for i < n {
		it := items[i]
		if !isIFS(it) {
			if it.anchor {
				curQuoted = true
			} else {
				cur.WriteRune(it.r)
				if it.quoted {
					curQuoted = true
				}
			}
			i++
			continue
		}
		j := i
		for j < n && isWS(items[j]) {
			j++
		}
		if j < n && isIFS(items[j]) && !isWS(items[j]) {
			j++
			for j < n && isWS(items[j]) {
				j++
			}
		}
		emit()
		i = j
	}
	emit()
	return out
}

// ---- driving the real code ----

var segKinds = []seg{
	{"a", false, 0}, {" ", false, 0}, {":", false, 0}, {" b", false, 0}, {"c:", false, 0},
	{"", true, 0}, {"x y", true, 0}, {":", true, 0}, {"é:日", false, 0}, {"\t", false, 0},
}

type ifsSetting struct {
	name string
	val  *string
}

func strp(s string) *string { return &s }

var ifsSettings = []ifsSetting{
	{"unset", nil}, {"default", strp(" \t\n")}, {"empty", strp("")}, {"colon", strp(":")},
	{"space-colon", strp(" :")}, {"colon-space-tab", strp(": \t")}, {"multibyte", strp("日 ")},
}

func wordOf(segs []seg) ast.Word {
	var w ast.Word
	for i, s := range segs {
		switch s.exp {
		case 1:
			w = append(w, &ast.ParamExp{Name: &ast.Lit{Value: fmt.Sprintf("v%d", i)}})
			continue
		case 2:
			w = append(w, &ast.ParamExp{Braces: true, Name: &ast.Lit{Value: fmt.Sprintf("u%d", i)}, Op: "-", Word: ast.Word{&ast.Lit{Value: s.text}}})
			continue
		case 3:
			w = append(w, &ast.ParamExp{Braces: true, Name: &ast.Lit{Value: fmt.Sprintf("w%d", i)}, Op: "#"})
			continue
		}
		if s.quoted {
			// single quotes: one literal, even when empty
			w = append(w, &ast.Quote{Tok: "'", Value: ast.Word{&ast.Lit{Value: s.text}}})
		} else {
			w = append(w, &ast.Lit{Value: s.text})
		}
	}
	return w
}

func checkSplit(segs []seg, st ifsSetting) {
	atomicAdd(&cases)
	env := interp.NewExecEnv("sh")
	env.Opts |= interp.NoGlob
	env.Unset("HOME")
	if st.val == nil {
		// unset after having been set: the default must come back
		env.Set("IFS", ":x")
		env.Unset("IFS")
	} else {
		env.Set("IFS", *st.val)
	}
	for i, s := range segs {
		switch s.exp {
		case 1:
			env.Set(fmt.Sprintf("v%d", i), s.text)
		case 3:
			n, _ := strconv.Atoi(s.text)
			env.Set(fmt.Sprintf("w%d", i), strings.Repeat("x", n))
		}
	}
	var got []string
	var err error
	panicked := interface{}(nil)
	func() {
		defer func() { panicked = recover() }()
		got, err = env.Expand(wordOf(segs), 0)
	}()
	want := refExpand(segs, st.val)
	key := fmt.Sprintf("%v|%s", segs, st.name)
	in := map[string]interface{}{"segments": fmt.Sprintf("%q", segs), "ifs": st.name}
	if panicked != nil {
		addMismatch(mismatch{Check: "split", Input: in, Got: fmt.Sprintf("panic: %v", panicked), Want: fmt.Sprintf("%q", want), Key: key})
		return
	}
	atomicAdd(&distinct)
	if err != nil || !(len(got) == 0 && len(want) == 0 || reflect.DeepEqual(got, want)) {
		addMismatch(mismatch{Check: "split", Input: in, Got: fmt.Sprintf("%q %v", got, err), Want: fmt.Sprintf("%q", want), Key: key})
	}
}

func runSplit(tier string, seed int64) (string, bool) {
	maxSeg := 4
	if tier == "thorough" {
		maxSeg = 6
	}
	// enumerate all words of up to maxSeg segments; a leading "~" cannot arise from these kinds
	var all [][]seg
	var rec func(cur []seg)
	rec = func(cur []seg) {
		all = append(all, append([]seg{}, cur...))
		if len(cur) == maxSeg {
			return
		}
		for _, k := range segKinds {
			rec(append(cur, k))
		}
	}
	kinds := segKinds
	if tier != "thorough" {
		kinds = segKinds
	}
	_ = kinds
	rec(nil)
	parallel(len(all), func(i int) {
		for _, st := range ifsSettings {
			checkSplit(all[i], st)
		}
	})
	addSample(fmt.Sprintf("Expand(%q, 0) with IFS %s", all[len(all)/3], ifsSettings[3].name))
	// results of expansions outside double quotes are split like literal text:
	// every word of <= 3 segments over literals, a quoted colon, $v, ${u-text}
	// and ${#w}, under four IFS values (one of them a digit)
	expKinds := []seg{
		{"a", false, 0}, {":", false, 0}, {":", true, 0}, {"1", false, 0},
		{"b:c", false, 1}, {"", false, 1}, {"d:e f", false, 2}, {"11", false, 3}, {"101", false, 3},
	}
	expIFS := []ifsSetting{{"default", strp(" \t\n")}, {"colon", strp(":")}, {"space-colon", strp(" :")}, {"one", strp("1")}, {"zero-one", strp("01")}}
	var all2 [][]seg
	var rec2 func(cur []seg)
	rec2 = func(cur []seg) {
		all2 = append(all2, append([]seg{}, cur...))
		if len(cur) == 3 {
			return
		}
		for _, k := range expKinds {
			rec2(append(cur, k))
		}
	}
	rec2(nil)
	parallel(len(all2), func(i int) {
		for _, st := range expIFS {
			checkSplit(all2[i], st)
		}
	})
	addSample(fmt.Sprintf("Expand(%q, 0) with IFS %s (expansion family)", all2[len(all2)/2], expIFS[3].name))
	// seeded random longer words
	rng := rand.New(rand.NewSource(seed))
	n := 20000
	for i := 0; i < n; i++ {
		var segs []seg
		for k := rng.Intn(9); k >= 0; k-- {
			segs = append(segs, segKinds[rng.Intn(len(segKinds))])
		}
		checkSplit(segs, ifsSettings[rng.Intn(len(ifsSettings))])
	}
	return fmt.Sprintf("exhaustive: words of <= %d segments over %d segment kinds x %d IFS settings; words of <= 3 segments over 9 kinds that include $v, ${u-text} and ${#w} x 5 IFS settings (one with digits); plus %d seeded random words of <= 9 segments", maxSeg, len(segKinds), len(ifsSettings), n), true
}
