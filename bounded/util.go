package main

import "sync/atomic"

func atomicAdd(p *int64) { atomic.AddInt64(p, 1) }
